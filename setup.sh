#!/bin/sh
# Builds the overlay interpreter used by every check (offline, idempotent).
# /verif/.venv = venv of /venv's python + .pth to /venv's site-packages + crosshair-tool from the wheelhouse.
set -e
V=/verif/.venv
if [ -x "$V/bin/python" ] && "$V/bin/python" -c "import crosshair, z3, libcst, absl" >/dev/null 2>&1; then
  exit 0
fi
rm -rf "$V"
/venv/bin/python -m venv "$V"
SP=$("$V/bin/python" -c "import sysconfig; print(sysconfig.get_paths()['purelib'])")
echo "/venv/lib/python3.12/site-packages" > "$SP/fiddle_verif_overlay.pth"
PIP_NO_INDEX=1 "$V/bin/pip" install -q --no-index --find-links /opt/veriftools/wheels crosshair-tool >/dev/null
"$V/bin/python" -c "import crosshair, z3, libcst, absl; print('overlay ok', crosshair.__version__, z3.get_version_string())"
