#!/bin/sh
# (parallel-safe variant of try_mutant.sh: per-id scratch files under /tmp/trym/<id>)
# usage: try_mutant_p.sh <PROP> <worktree> <mutdir> <seeded-id> [tier] [extra check args]
# Confirms a seeded change (tests pass with it, demo fails with it / passes without) in the scratch
# worktree and runs the property's check against that worktree (FIDDLE_VERIF_REPO); /repo is untouched.
PROP=$1; WT=$2; MUT=$3; SID=$4; TIER=${5:-quick}; shift 5 2>/dev/null
OUT=/verif/seeded/$SID; mkdir -p $OUT; T=/tmp/trym/$SID; mkdir -p $T
git -C $WT checkout -q -- . ; git -C $WT checkout -q --detach main; git -C $WT apply $MUT/patch.diff || { echo "patch does not apply"; exit 3; }
cp $MUT/patch.diff $OUT/patch.diff; cp $MUT/demo.py $OUT/demo.py; [ -f $MUT/notes.md ] && cp $MUT/notes.md $OUT/notes.md
echo "== demo with change"; (cd $WT && PYTHONPATH=$WT /venv/bin/python $MUT/demo.py >$T/demo_with.txt 2>&1); DW=$?; tail -3 $T/demo_with.txt
echo "== test suite with change"; (cd $WT && /venv/bin/python -m pytest -q -p no:cacheprovider --timeout=900 --deselect fiddle/_src/codegen/auto_config/ir_to_cst_test.py::IrToCstTest::test_code_for_expr_jax_partition_spec 2>&1 | grep -E "passed|failed|error" | tail -1 > $T/suite_with.txt); cat $T/suite_with.txt
echo "== check $PROP against the changed tree"
(cd /verif && FIDDLE_VERIF_REPO=$WT ./check $PROP --tier $TIER "$@" > $T/check_with.txt 2>$T/check_with.err); CW=$?
grep -c VIOLATION $T/check_with.txt; grep VIOLATION $T/check_with.txt | head -3; tail -1 $T/check_with.txt
git -C $WT checkout -q -- .
echo "== demo without change"; (cd $WT && PYTHONPATH=$WT /venv/bin/python $MUT/demo.py >$T/demo_without.txt 2>&1); DWO=$?; tail -1 $T/demo_without.txt
FIRST=$(grep VIOLATION $T/check_with.txt | head -1 | sed 's/.*replay=//')
EX=""; [ -n "$FIRST" ] && [ -f "$FIRST" ] && EX=$(python3 -c "import json,sys; print(json.load(open('$FIRST'))['args_repr'][:400])")
python3 - <<PY
import json
meta = dict(property="$PROP", seeded_id="$SID", demo_exit_with_change=$DW, demo_exit_without_change=$DWO,
            suite_with_change=open('$T/suite_with.txt').read().strip(), check_cmd="FIDDLE_VERIF_REPO=<worktree with patch> ./check $PROP --tier $TIER $*",
            check_exit_with_change=$CW, violations_reported=int("$(grep -c VIOLATION $T/check_with.txt)"),
            first_counterexample="""$EX""", check_summary=open('$T/check_with.txt').read().strip().split('\n')[-1],
            needs_to_manifest=open("$OUT/notes.md").read()[:1500] if __import__('os').path.exists("$OUT/notes.md") else "")
json.dump(meta, open("$OUT/meta.json", "w"), indent=1)
print("caught" if $CW == 1 else "MISSED (exit $CW)")
PY
