#!/bin/sh
# usage: try_seeded.sh <PROP> <patch.diff> [check args...]   -> runs ./check PROP against a scratch worktree with the patch
PROP=$1; PATCH=$2; shift 2
WT=${WT:-/tmp/wt/_try2}
[ -d $WT ] || git -C /repo worktree add --detach $WT main >/dev/null 2>&1
git -C $WT checkout -q -- . ; git -C $WT checkout -q --detach main; git -C $WT apply $PATCH || { echo "patch does not apply"; exit 3; }
(cd /verif && FIDDLE_VERIF_REPO=$WT ./check $PROP "$@" 2>/tmp/try_seeded.err | grep -v '^\[' | tail -4); RC=$?
git -C $WT checkout -q -- .
