"""What MANIFEST.json claims per property (edited by hand, rendered by gen_manifest.py)."""

_A_NOTE = ('Trusted: CrossHair 0.0.110 proxy semantics and path pruning, z3 5.1.0, CPython 3.12 builtins; the '
           'driver disables CrossHair contract enforcement / short-circuiting on callees and traces '
           'getattr/setattr/hasattr (DESIGN 1.1). A cube that times out is reported inconclusive in evidence '
           '(obligations vs discharged), never as success. Counterexamples are replayed in a plain interpreter '
           'before a VIOLATION is printed.')

CLAIMS = {
    'C13': dict(
        engine='A-crosshair',
        technique='solver-enumerated bounded family (CrossHair + z3 certify the selector space is covered; the text pipeline runs on realised selectors under NoTracing); emitted fiddler executed and compared canonically with apply_diff',
        text=('For every diff produced by build_diff over the C10 pair family (three-node DAG `old`, `new` = two of 14 '
              'edit kinds at solver-chosen nodes on a deep copy, on a shallow copy sharing objects with old, or on an '
              'unrelated member; six wrapper kinds) and for eight hand-assembled diffs (a shared value referring to a '
              'replaced old path; forward and backward references among shared values; a swap by references; a child '
              'salvaged from a deleted and from a replaced subtree; a callable change with tags on parameters of the '
              'new callable; a shared Config whose name sorts before the shared list it holds), both variable-naming '
              'modes and old supplied or not: the text emitted by fiddler_from_diff compiles, and running the fiddler '
              'on a deep copy of old gives a configuration canonically equal (callables, arguments, tags, aliasing) '
              'to what apply_diff gives on another deep copy - or both fail.'),
        note=_A_NOTE + ' Text pipeline: selectors concretised by comparisons, body under NoTracing (symbolic_leaves: false). The pair family is C10\'s.'),
    'C12': dict(
        engine='A-crosshair',
        technique='solver-enumerated bounded family (CrossHair + z3 certify the selector space is covered; the text pipeline runs on realised selectors under NoTracing); generated module compiled, executed and compared canonically',
        text=('For both generators (new_codegen, auto_config_codegen), six configuration shapes (nested; shared node '
              'and shared list / dict / tuple containers; Partial with ArgFactory arguments and nested Partials; a '
              'tuple without direct Buildable shared by parents at different depths; a sub-configuration referenced '
              'twice; a class hierarchy chain with type / function leaves), 37 boundary leaf values (large ints, '
              'special floats incl. inf / nan / -0.0, complex, strs with quotes / backslash / newline / NUL / '
              'non-ASCII, bytes, enum members incl. a nested enum class shadowed by a module-level one, types, '
              'functions, slice, nested tuple, frozenset, set, named tuple, range), six wrapper kinds, '
              'max_expression_complexity in {None, 0, 1, 2, 3}, include_history on / off, no / inner / middle '
              'sub-fixture, and tags (none, one, two per argument, all with values): the generator raises (input '
              'untouched) or the emitted module compiles, runs, and its fixture (as_buildable for the auto_config '
              'generator) yields a configuration canonically equal to the input (callables, arguments, tags, '
              'aliasing). For the same leaf set in eight nestings (bare, list, tuple, dict value, dict key, set '
              'element, nested, named tuple) convert_py_val_to_cst either raises or emits an expression that '
              'evaluates to a value of the same type and value (NaN by isnan, signed zero by sign).'
              ''),
        note=_A_NOTE + ' Text pipeline: selectors concretised by comparisons, body under NoTracing (symbolic_leaves: false).'),
    'C19': dict(
        engine='B-direct-smt',
        category='model_checking',
        technique='bounded model checking with a symbolic schedule (z3) of micro-operation programs compiled from the current source by ast; counterexample schedules replayed on real threads',
        text=('The functions that touch module-level state (build guard, tracking flag, suspend_tracking / set_tracking / '
              'tracking_enabled, History.add_new_value / new_value with the sequence counter, get_signature with its '
              'cache) are compiled from the working tree into micro-operations with one shared-memory access each; '
              'whether a location is per-thread is read from the class bases (threading.local), whether the counter '
              'increment is atomic from its initialiser (itertools.count). For each of 14 pairs (thorough: also 8 '
              'triples and longer pairs) of the thread programs {build with a slow body; build whose callable '
              'attempts a nested build; two edits; edit inside suspend_tracking then edit; nested suspension; '
              'set_tracking off / on around edits; first-time signature lookups of the same or of different '
              'callables; edits around a lookup}, for EVERY interleaving at source-line granularity of the shared '
              'accesses (complete schedules, K = number of shared accesses): every thread ends with exactly the '
              'observations of its alone-run (no spurious build error, nested build rejected, same number of history '
              'entries, tracking flag restored, signature of the requested callable), sequence ids strictly '
              'increase within each thread and are unique across threads. The single-thread model of every program '
              'is validated against a sequential run of the real code, a twin with the state declared shared must be '
              'satisfiable, and a satisfying schedule is replayed on real threads (line-gated) before it is reported.'),
        note='Trusted: z3 5.1.0; the ast-to-micro-operation compiler (engines/b3.py; constructs outside its subset make the obligation inconclusive, never pass); CPython\'s GIL atomicity of single dict operations and of next() on itertools.count. Code the threads run outside these functions is assumed to touch only thread-private objects; the run lists every module-level mutable name of fiddle/_src and requires each to be classified (an unclassified name makes the inventory inconclusive).'),
    'C11': dict(
        engine='A-crosshair',
        technique='bounded symbolic execution of the real code (CrossHair + z3) over a generated program family; program arguments unbounded symbolic',
        text=('For each of 358 generated programs (33 hand-listed bodies covering positional / keyword / *splat / '
              '**splat arguments, shared locals, list / tuple / dict literals, plain function calls, functools.partial, '
              'chained partials, arg_factory.partial (also alternating with functools.partial), calls to inlined and '
              'non-inlined auto_config functions, inlined_partial, exempt, with_tags, lambdas as values and as call '
              'sites, class methods, re-assignment, tuple unpacking, if / if-expression / for / list and dict '
              'comprehensions with the control-flow option, defaults, closures whose free variables sort before / '
              'between / after the injected handler cells, a captured object, staticmethod and classmethod '
              'decoration; plus 325 combinations of 8 outer constructs x 4 argument styles x 13 inner constructs), '
              'each called with one, two or three arguments whose int / bool values are unbounded symbolic: '
              'as_buildable invokes none of the configurable callables, fdl.build of its result yields a graph '
              'canonically identical (values, types, aliasing; returned callables observed through two calls) to '
              'fn(*args), and the decorated function called directly behaves like its undecorated twin (same graph, '
              'same number of constructor invocations).'),
        note=_A_NOTE + ' The generated module is registered in linecache so that auto_config can read its source. For inlined_partial the returned callable is observed through one call (aliasing across calls differs by design).'),
    'C18': dict(
        engine='B-direct-smt+A-crosshair',
        technique='direct SMT queries (z3 string / regex theory, cvc5 cross-check) over encodings regenerated from the source; solver-enumerated bounded families (CrossHair) for the text pipelines',
        text=('B1: with the path-element, directive and call regexes read from the imported modules and translated to '
              'z3 regular expressions, and the printer templates read from the AST of daglish.Attr / Index / Key, for '
              'ALL strings (no length bound) over the stated alphabets: every printed element (quote-, backslash- and '
              '"="-free string key incl. the empty one, non-negative int key / index, identifier attribute) is in the '
              'parser language; no longer parsable element is a prefix of a printed element followed by any '
              'continuation, so the left-to-right split is the printed one; "=" never occurs in a printed path; '
              '"config_str:" + any urlsafe-base64 text matches the directive regex; every dotted name with or without '
              'a parenthesised newline-free argument text matches the call regex. A: for every member of a family with '
              'dict keys from 12 values (empty, with space / backslash / newline / non-ASCII / dots / brackets, ints, '
              'digit strings) and 15 literal leaves, keyword and positional roots, six wrapper kinds: every '
              'as_dict_flattened / as_str_flattened leaf appears once, resolves under an independent tokenizer to that '
              'leaf, and set_value(path=repr(v)) for three values changes exactly that leaf (targets inside tuples '
              'excluded); for every directive sequence of length <= 4 over 10 directives (two base configs, a '
              'serialized config, three overrides, a mutating and a replacing fiddler, two ill-formed ones), the '
              'listed parse() groupings and intermediate .value reads: the flag value equals a left-fold reference '
              'interpreter, with errors exactly where it errs; serialized flag values parse back equal; '
              'CallExpression.parse inverts rendering for 16 literal argument values.'),
        note='Trusted: z3 5.1.0 string solver (each query also sent to the cvc5 1.0.3 binary; "no answer" within its limit is recorded per query), CrossHair 0.0.110 for the enumerated families, CPython re / ast. repr(str) is modelled as quoting on the escape-free alphabet; keys that need escapes are covered by the concrete family. regex.match is modelled as longest-matching-prefix and validated against re on a corpus each run. A query answered unknown is inconclusive, never success; counterexamples are replayed against the real parser before being reported.'),
    'C09': dict(
        engine='A-crosshair+B2-codec-stub',
        technique='bounded symbolic execution of the real code (CrossHair + z3) with a validated codec model; solver-enumerated bounded family for the JSON text stage',
        text=('(1a) For each of 51 boundary leaf values (ints up to 10**400, special floats incl. NaN / inf / -0.0, '
              'complex, strs with quotes / backslash / NUL / lone surrogate / astral characters, escape-like bytes, '
              'bools, None, Ellipsis, enum members, a type, a function, slice, frozenset, nested tuple, NO_VALUE, named '
              'tuple, a registered constant, range, bytearray, empty containers) in 11 container positions (direct, '
              'list, tuple, dict value, dict key, set / frozenset element, named tuple, defaultdict, dict-based '
              'registered object, nested), three Buildable shapes (Config; Partial with ArgFactory; positional '
              'arguments), tags incl. value-less ones, shared vs copied containers: dump_json raises (input untouched) '
              'or emits text that json.loads accepts, load_json rebuilds a canonically equal value (types, leaves, '
              'callables, tags, sharing, unset stays unset) without invoking anything, and a second dump gives the '
              'same document up to set order. (1b) The same for unbounded symbolic int / bool and short symbolic str '
              'leaves and a symbolic sharing flag through the real Serialization / Deserialization classes with the '
              'text stage replaced by the jsonify stub. (2, 3) For every pyref of a document rewritten to one of eight '
              'hostile targets (os.system, builtins.eval, attribute chains, a missing module, a non-traverser type, a '
              'recording function), every position of a refused allows_import / allows_value answer, cold or after a '
              'permissive load of the same document: every import is immediately preceded by an approving '
              'allows_import for that module, nothing happens after a refusal, a refusal surfaces as PyrefPolicyError, '
              'nothing configured is ever called; DefaultPyrefPolicy refuses os.system and builtins.eval. (4) For '
              'every bytes value of length <= 6 (thorough: <= 8) unflatten(flatten(b)) == b through the registered '
              'traverser.'),
        note=_A_NOTE + ' (1a), the default-policy and the end-to-end bytes obligations run with realised selectors under NoTracing (the JSON text stage is C code). The raw_unicode_escape model is only plugged in when the source uses that codec; it is validated against the C codec on every run.'),
    'C10': dict(
        engine='A-crosshair',
        technique='bounded symbolic execution of the real code (CrossHair + z3); canonical form of apply_diff(build_diff(old, new), copy of old) versus new',
        text=('For every three-node DAG `old` of the family (child targets solver-enumerated, six wrapper kinds incl. '
              'tuples and named tuples, shared containers, tags with and without values, dict / list arguments) and '
              'every `new` obtained by two of 14 edit kinds (leaf change, callable swap keeping / dropping a parameter, '
              'argument added / removed, tag added / removed, alias created / broken, subtree moved, container edited, '
              'subtree replaced, children swapped, three-way rotation) at solver-chosen nodes, applied to a deep copy, '
              'to a shallow copy sharing objects with old by identity, or to an unrelated family member: build_diff '
              'returns without modifying old or new; apply_diff on a deep copy of old succeeds, keeps the root object, '
              'makes it canonically equal to new (callables, arguments, tags, aliasing) and modifies neither the diff '
              'nor new; the diff between a member and its deep copy is empty. One listed known finding (positional '
              'arguments).'),
        note=_A_NOTE + ' Leaves are concrete (the alignment heuristics compare leaves pairwise and by len(repr)).'),
    'C04': dict(
        engine='A-crosshair',
        technique='bounded symbolic execution of the real code (CrossHair + z3) against a closure-based reference model of functools.partial with per-call factories',
        text=('For three callables (keyword slots + **kwargs; positional-only + positional-or-keyword + *args; a class), '
              'every assignment of 13 nesting kinds (value, Config, ArgFactory, ArgFactory in list / dict / nested tuple, '
              'ArgFactory of ArgFactory, ArgFactory of Config, Partial holding ArgFactory and Config, factory-free '
              'container, one ArgFactory instance twice, two equal ArgFactory instances, argument-less ArgFactory '
              'instances) to the argument slots in the cube list, the Partial at the root or shared three times inside '
              'a larger configuration, and every sequence of two (thorough: three) calls each overriding a '
              'solver-chosen subset of keywords (or appending a positional) with unbounded symbolic ints: the built '
              'value is a functools.partial, one Partial instance builds to one callable, nested Configs are '
              'instantiated during fdl.build and never again, each non-overridden factory is invoked exactly once per '
              'call and overridden ones not at all, and the canonical form of the list of all call results (values, '
              'types, aliasing within and across calls - fresh objects for factories at any depth, the very same '
              'object for nested Configs and factory-free containers) equals that of the reference model.'),
        note=_A_NOTE + ' CrossHair bypasses functools.lru_cache, so cache-dependent behaviour is only seen by the concrete smoke runs of the harness (13 members).'),
    'C17': dict(
        engine='A-crosshair',
        technique='bounded symbolic execution of the real code (CrossHair + z3) for the core APIs; solver-enumerated bounded families (realise-then-untrace) for the text pipelines',
        text=('For each of 56 call forms (fdl.build; repr / str; as_str_flattened both modes, as_dict_flattened, '
              'history_per_leaf_parameter; graphviz render (also with max_depth / max_str_length) / render_diff; dump_json, Serialization, dump_yaml; build_diff '
              'as old and as new, skeleton_from_diff; check_types, get_type_errors, get_config_errors, '
              'check_baseline_style; new_codegen, auto_config_codegen, legacy codegen; select iteration / get / tag '
              'iteration; debug.grep; cast (also to the same type, followed by edits of the result), copy_with (plain and TaggedValue), deepcopy_with, copy, deepcopy; '
              'materialize_tags in three forms, list_tags; clear_argument_history; trimmed, with_defaults_trimmed both '
              'flags, depth_over, structure, trim_fields_to, trim_long_fields; unintern_tuples_of_literals, '
              'replace_unconfigured_partials_with_callables; daglish.iterate, identity rebuild; ==; ordered_arguments; '
              'and follow-up tag / argument edits on a returned copy) and every member of two configuration families '
              '(positional-only / *args arguments with value-less tags; keyword-only with valued tags; both with '
              'shared nodes and containers, a 100-character string directly and inside lists, tuples of literals, a '
              'Buildable with no arguments but a tag, Config / Partial kinds, child targets solver-enumerated): the '
              'canonical form of the input (callables, arguments, tags, sharing) and the identity set of its mutable '
              'objects are the same before and after, whether the API returns or raises.'),
        note=_A_NOTE + ' Text pipelines (printers, graphviz, yaml, json text, diff, code generators, grep, trim_long_fields) run with realised selectors under NoTracing: solver-enumerated family, concrete leaves.'),
    'C20': dict(
        engine='A-crosshair',
        technique='bounded symbolic execution of the real code (CrossHair + z3); built-graph canonical forms before / after each transformation',
        text=('For every member of a family combining positional-only parameters with defaults (set, unset, explicitly '
              'equal to the default), *args, mutable default objects shared between two parameters (unset, the same '
              'object set explicitly, an equal list, an equal list aliased by a sibling argument or inside a nested '
              'child), a dataclass with a default_factory field, configured and unconfigured Partials inside lists / '
              'dicts / tuples, one tuple of literals at three places, tagged values with and without value directly '
              'and inside containers (also with values shared elsewhere), tags on unset and positional arguments, and '
              'shared nodes (site variants solver-enumerated, unbounded symbolic int leaves), and each of '
              'materialize_defaults (once and twice), with_defaults_trimmed (both flags), unintern_tuples_of_literals, '
              'replace_unconfigured_partials_with_callables, clear_argument_history, materialize_tags (no tags / a tag '
              'set / clear_field_tags): the input is not modified, the transformed configuration builds a canonically '
              'identical object graph (values, types, aliasing; or both builds fail), the first two keep it == to the '
              'original, materialize_defaults is idempotent and leaves every parameter that has a default value '
              'explicitly set (by name or index), and a serializable configuration stays serializable. '
              'auto_config.inline on four programs (as root, shared three times, nested) and '
              'convert_dataclasses_to_configs on five nested / shared dataclass shapes build equal graphs. One listed '
              'known finding (trimming a default shared between parameters).'),
        note=_A_NOTE + ' A built functools.partial binding nothing (or only immutable defaults) is identified with its callable.'),
    'C15': dict(
        engine='A-crosshair',
        technique='bounded symbolic execution of the real code (CrossHair + z3) against an independent walker and a substituted re-construction',
        text=('For every four-node DAG over the callables {function, classes A <- B <- C} (per-node callable, '
              'Config / Partial kind and child targets solver-enumerated; shared nodes, matching nodes nested inside '
              'matching nodes and inside list / tuple / dict / named-tuple / list-in-dict containers), every selected '
              'callable, match_subclasses setting and buildable_type filter: iterating select() yields exactly the '
              'independently computed matching nodes once each; .set assigns the (unbounded symbolic) value on '
              'exactly those nodes and leaves every other argument identical; .get yields their attribute values; '
              '.replace (int or Config value, deepcopy on / off) makes the configuration canonically equal to the '
              'same family member constructed with every reference to a matching node substituted (one copy per '
              'matching node when deep-copying), keeps the root and every still-referenced non-matching Buildable '
              'the same object, leaves nothing matching reachable, and refuses a matching root with ValueError '
              'without modifying anything. Tag selections: for every subset of seven argument sites (positional-only '
              'with / without default, positional-or-keyword, *args element, required / defaulted keyword-only, '
              '**kwargs) tagged and every subset holding values, iteration yields value, else default, else '
              'NO_VALUE, once per tagged argument of each distinct Buildable, with subclass-aware tag matching.'),
        note=_A_NOTE),
    'C14': dict(
        engine='A-crosshair',
        technique='bounded symbolic execution of the real code (CrossHair + z3); frame-condition oracle from an independent walker',
        text=('For every member of a three-node family whose eight argument sites (positional-only set / unset, *args '
              'element, unset keyword, **kwargs entry with / without value, annotated parameter, unset keyword-only) '
              'all carry tag sets drawn from T0 <- T1 <- T2, U by a solver-enumerated affine pattern, every query tag, '
              'each of set_tagged / select(tag=).replace (deepcopy on / off), after each of ten transformations (none, '
              'copy, deepcopy, cast, JSON round trip, apply_diff towards the tagged configuration, pickle, copy_with, '
              'deepcopy_with, identity traversal): list_tags equals the union of tag sets over reachable Buildables '
              '(with and without superclasses), the transformation preserves arguments, tags and sharing, and after '
              'the assignment every argument of every still-reachable Buildable whose tag set contains the query tag '
              'or a subclass holds the (unbounded symbolic) value while no other argument and no tag changed. '
              'Separately: three-step histories of add/remove/set/clear tag, TaggedValue assignment, plain assignment '
              'and deletion against a dict-of-sets model; TaggedValues directly or inside list / tuple / dict / nested '
              'list build to their value or make the build fail when never given one; annotation tags combine with '
              'constructor-supplied TaggedValue tags and survive the transformations. One listed known finding '
              '(diffing cannot address positional arguments).'),
        note=_A_NOTE + ' JSON transformation: the text stage is replaced by the jsonify data-model stub (validated against json.dumps/json.loads in every run). Diff and pickle cubes use concrete leaves.'),
    'C08': dict(
        engine='A-crosshair',
        technique='bounded symbolic execution of the real code (CrossHair + z3) against an independent path enumerator',
        text=('For every member of the structure family (positional-argument Buildable root or plain dict / list root; '
              'defaultdict, named tuple, empty containers, interned tuple of literals, user-registered node type with '
              'temporaries, shared lists; child targets solver-enumerated; six wrapper kinds; symbolic int leaves) and '
              'each of ten traversal APIs: every reported (value, path) satisfies follow_path(root, path) is value, '
              'un-memoized traversals report exactly the independently enumerated paths once each, memoized ones visit '
              'every distinct mutable object exactly once, collect_paths_by_id / get_all_paths / legacy all-paths equal '
              'the independent all-paths relation, an identity rebuild under MemoizedTraversal has the same canonical '
              'form (types, default_factory, sharing) and shares no mutable object with its input, the input is never '
              'modified, and cyclic inputs make the memoized traversals raise an ordinary error.'),
        note=_A_NOTE + ' Un-memoized traversals on cyclic inputs (RecursionError today) are outside the claim.'),
    'C07': dict(
        engine='A-crosshair',
        technique='bounded symbolic execution of the real code (CrossHair + z3); canonical-form and identity-set comparison',
        text=('For every 4-node configuration of the family (positional-argument root incl. *args, Config or Partial, '
              'shared list, tags on keyword / positional / nested / value-less arguments; child targets '
              'solver-enumerated), every copy operation (copy.copy, copy.deepcopy, pickle protocols 2 and 5, copy_with, '
              'deepcopy_with, cast to Partial / Config) and every pair of follow-up edits on the copy (set/delete '
              'keyword, index and *args arguments, tag add/remove/clear/set, nested node / container / tag mutation '
              'for deep copies): the copy has the same canonical form (callables, arguments, tags, sharing), deep '
              'copies share no Buildable, container, argument dict, tag set or history list with the original, shallow '
              'copies share exactly the argument values, and the original\'s canonical form and built graph are '
              'unchanged by the edits. Unpicklable callables fail loudly.'),
        note=_A_NOTE + ' Leaves are symbolic ints; in the pickle cubes they are realised within [-2, 2] first (pickle is C code).'),
    'C05': dict(
        engine='A-crosshair',
        technique='bounded symbolic execution of the real code (CrossHair + z3) with the failing node as a symbolic crash point',
        text=('For every 3-node DAG of the family (child targets and the failing node solver-enumerated), 9 exception '
              'class shapes (plain, KeyError, custom __init__, __str__ override, __slots__, un-subclassable class, '
              'BaseException subclass, empty message, multiple inheritance), 3 diagnostic-formatting situations '
              '(normal, argument whose repr raises, unset tagged argument whose tag cannot be formatted), single and '
              'repeated failure: the escaping exception is an instance of the original class, its text starts with '
              'the original text, it names a path that an independent walker resolves to the failing Buildable, '
              'nothing is invoked after the failing callable, the configuration is unchanged, the next build gives '
              'the healthy result; fdl.build from inside a callable being built is rejected and the guard is released '
              'afterwards. Two listed known findings (path clause only).'),
        note=_A_NOTE + ' Leaves are concrete (the formatted diagnostic is the subject). CrossHair bypasses lru_cache, so the proxy class is rebuilt per failure.'),
    'C16': dict(
        engine='A-crosshair',
        technique='bounded symbolic execution of the real code (CrossHair + z3); inductive-step history invariants after every prefix',
        text=('For the C03 operation space (two operations by name/index/slice on catalogue signatures, symbolic '
              'assigned values) under every suspend_tracking layout (none, first, second, nested both, block that '
              'raises), and for 3-operation sequences of tag edits / update_callable / materialize_defaults / assign / '
              'copy_with / tagged assignment / deletion: after every prefix each parameter\'s history ends with its '
              'current value (or DELETED) and tag set, history is append-only, a changed stored value adds exactly one '
              'entry and a rejected or suspended edit adds none, sequence ids are strictly increasing in program order '
              'and unique across two alternately edited configurations, value entries are not attributed to Fiddle\'s '
              'own modules, the tracking flag is restored after nested and raising blocks, and clearing history '
              'changes neither == nor the canonical form.'),
        note=_A_NOTE + ' The thread clause is decided by C19. Tag entries written through the tagging API are attributed to tagging.py by design (pinned by printing_test) and are exempt from the location clause.'),
    'C06': dict(
        engine='A-crosshair',
        technique='bounded symbolic execution of the real code (CrossHair + z3); relational checks over rewrite pairs',
        text=('For every 3-node DAG of the family (child targets solver-enumerated, wrapper kinds and rewrite pairs as '
              'cubes), symbolic int leaves and a symbolic short str leaf: == / != never raise, are reflexive and '
              'symmetric, give True for the four equality-preserving rewrites (deepcopy, default made explicit, dict '
              'reordered, different edit history) and False for the four equality-breaking ones (leaf, callable, '
              'Buildable type, alias redirected), are transitive over a -> r1(a) -> r2(r1(a)), and a == b implies '
              'canonically identical built graphs. Separate cubes: dict keys of mixed int/str types from small '
              'domains in every type pattern and insertion order; unset vs explicit default for every parameter kind '
              'over the signature catalogue.'),
        note=_A_NOTE + ' Dict keys range over finite small domains (a symbolic dict key is realised when hashed).'),
    'C02': dict(
        engine='A-crosshair',
        technique='bounded symbolic execution of the real code (CrossHair + z3) against an independent mirror construction',
        text=('For every DAG of <=4 Buildable nodes with two child slots each (every choice of earlier node or leaf per '
              'slot, solver-enumerated), the listed wrapper kinds (bare, list, tuple, dict, namedtuple, list-in-dict, a '
              'user-registered node type whose flatten allocates temporaries), Config/Partial kinds, shared container '
              'objects, an equal-but-distinct twin, and unbounded symbolic int leaves: the invocation log holds every '
              'reachable Config exactly once with children before parents, the canonical form of the built graph '
              '(including aliasing) equals that of an independent mirror construction, and two builds share no '
              'mutable object.'),
        note=_A_NOTE + ' GC-driven id reuse is outside the claim (not a program input).'),
    'C01': dict(
        engine='A-crosshair',
        technique='bounded symbolic execution of the real code (CrossHair + z3), differential against the direct call',
        text=('For every signature of the generated catalogue (all 324 combinations of <=2 positional-only, <=2 '
              'positional-or-keyword, *args, keyword-only, **kwargs parameters with every placement of defaults), every '
              'subset of parameters set (constructor or later edits), 0-2 *args values, an optional extra **kwargs '
              'name, every nesting of a child Config inside list/tuple/dict/namedtuple arguments, and unbounded '
              'symbolic int values: cfg[:] and the keyword report equal what was configured, and fdl.build returns '
              'exactly the record of the direct call (unset parameters take the callable\'s defaults) or raises '
              'when a required parameter is missing. Special callables (class __init__, subclass chain, dataclass '
              'with default_factory, classmethod, functools.partial object, callable instance, NamedTuple) are '
              'separate cubes.'),
        note=_A_NOTE + ' Stubs: building._format_arg and Buildable.__repr__ return constants (formatting is C05\'s subject).'),
    'C03': dict(
        engine='A-crosshair',
        technique='bounded symbolic execution of the real code (CrossHair + z3) against a reference model',
        text=('For every catalogue signature in the cube list, every listed initial state, every history of 1-2 '
              '(thorough: 1-3) get/set/delete operations by name, index, negative index, VARARGS handle and slice '
              'within the stated index/step ranges, and every (unbounded, symbolic) assigned value, the real '
              'Buildable reports exactly what the RefArgs list model predicts after every operation, and invalid '
              'edits raise and change nothing; "Confirmed over all paths" per cube is z3\'s verdict that no '
              'feasible branch inside the cube\'s preconditions is unexplored.'),
        note=_A_NOTE + ' Reference semantics: DESIGN.md Appendix A.'),
}

NOT_APPLICABLE = {}      # every property is decided with the technique (clauses outside its reach: DESIGN.md section 5)

NOTES = ('Every check is `./check <ID> --tier quick|thorough`; the encoding is the symbolic execution of /repo\'s '
         'current working tree (nothing cached). Genuine defects found by the checks were repaired by "fix:" commits '
         'in /repo and are listed as fixed entries in /verif/known_findings.json.')

# Members added after the second round of seeded changes (DESIGN 9.4); appended to the claim text of the property.
EXTRA = {
    'C02': 'A further obligation builds 2 / 3 / 40 (concrete smoke run: 400) nodes of a user-registered type whose flatten '
           'yields temporary tuples: every Config below them is invoked once and lands in its own place.',
    'C04': 'The nesting kinds also include factory-free dict / list / empty-dict siblings of a factory inside one '
           'container (passed through uncopied) and ArgFactory objects whose configured arguments are positional only '
           '(plain and holding a nested ArgFactory): 16 kinds in all.',
    'C05': 'Two more exception shapes: twin classes that share one qualified name (a different one per round) and an '
           'exception that already escaped the previous build and is raised again by a different node (the context '
           'added by this build - the last named path - must lead to the node failing now).',
    'C07': 'Edits on the copy include update_callable (to a callable with a different signature) on the nodes of a deep '
           'copy, with a signature-dependent view of the original (parameters with defaults, length of the positional '
           'view) compared before and after; the family holds a callable with annotation tags, one removed and one '
           'replaced before copying.',
    'C08': 'The cycle clause is also checked for traversals that run with their own registry (dataclass registry, a user '
           'registry) on cycles passing only through node types of that registry; get_all_paths(allow_caching=False) is '
           'checked after the traversal function has given an already visited object one more parent.',
    'C11': 'The program family also holds closures combined with attribute-load and attribute-store handlers, a '
           'collection-like user class (sized, iterable, container) and a list subclass.',
    'C12': 'Tags are also placed on plain and on ArgFactory-valued arguments of the root (a Partial mixing both kinds).',
    'C14': 'The tag-operation histories include assigning one TaggedValue object to two arguments.',
    'C15': 'The callable set includes a classmethod that is looked up afresh at every use (equal but never identical '
           'bound-method objects), and replace() is also called with a value equal to, but distinct from, the first '
           'matching node (with and without deepcopy; identity clauses).',
    'C16': 'The misc histories include an edit made by a helper thread that is joined before the next step; after every '
           'step the sequence numbers of all entries written by it exceed everything that existed before, across both '
           'configurations, and no number occurs twice.',
    'C18': 'Empty containers are among the leaves, and all printed leaves are also written back one after the other into '
           'one copy, which must equal assigning a fresh copy of each value at its site (no aliasing between textually '
           'identical overrides).',
    'C19': 'The translator also handles list-valued state (append / pop as one step; a class-level list is shared even '
           'below threading.local), properties, class-based context managers, threading.get_ident and conditional '
           'expressions; the thorough tier checks every unordered pair of the ten thread programs (with repetition) '
           'plus the three-thread systems.',
    'C20': 'The family also holds Partials configured through positional-only / *args arguments only.',
}
for _p, _t in EXTRA.items():
  CLAIMS[_p]['text'] = CLAIMS[_p]['text'].rstrip() + ' ' + _t

# Members added after the third round of seeded changes.
EXTRA3 = {
    'C01': 'A further obligation configures and builds 1 / 2 / 4 (concrete smoke run: 300) short-lived unhashable callable '
           'instances with different call signatures one after the other.',
    'C02': 'The identity of a leaf-only tuple shared by both slots of the root is checked directly, and a chain of 1 / 2 / 5 '
           '(smoke run: 600) nested Configs next to an early sibling must not invoke any Config twice whether or not the '
           'build gives up with RecursionError.',
    'C03': 'The quick tier also runs the narrow slice-assignment cubes (all small start / stop / step / length combinations, '
           'empty slices inside the fixed prefix included) on two signatures with *args.',
    'C04': 'Two more nesting kinds: the very container object of slot a in a second slot, and an ArgFactory whose '
           'factories sit only inside its container arguments (18 kinds).',
    'C06': 'In the sharing obligation the three equal objects are Configs, sets (leaves for daglish) or lists.',
    'C08': 'A registry with a fallback must see a type registered (in itself or in the fallback) after its first lookup; '
           'the legacy memoized traversal is also run with a pure visitor (result None for every object).',
    'C09': 'Leaves include IntEnum / str-mixin enum members and an instance of a float subclass; one placement shares a '
           'list only below a dict-based object; the policy obligation also uses a policy object whose truth value is '
           'False.',
    'C10': 'Three more edit kinds (19): a callable swap to a **kwargs callable that keeps a surplus keyword (built without '
           'update_callable), a tuple with one more and with one less element; the first edit of a pair may not fail.',
    'C11': 'Programs with a tagged factory held in a local and reused, and with local names spelled like builtins bound to '
           'configurable callables.',
    'C12': 'Leaves include strings with carriage returns and a function from a user module named auto_config; the '
           'sub-fixture option also covers nested sub-fixtures (the middle node and a Buildable inside it), also with the '
           'nested one referenced by the top-level configuration as well (known finding: shape 4).',
    'C14': 'One tag set holds an unrelated tag with the same short name as T1.',
    'C15': 'set() is also called with two attributes, the first of which detaches nested matching nodes.',
    'C16': 'Suspension modes include a suspend block nested in another one and a suspend block entered with tracking '
           'switched off imperatively (the operation after the inner block is still unlogged).',
    'C17': 'The family holds nodes whose only arguments are explicitly set to the parameter default.',
    'C18': 'Call-expression arguments include non-ASCII strings; a FiddleFlag holding a base config plus later directives '
           'is serialized with Flag.serialize() and parsed back by a second flag.',
    'C19': 'A further thread program reaches, in a memoized traversal, a leaf object that both threads\' configurations '
           'contain (MemoizedTraversal.apply compiled with per-instance vs class-level dicts read from the class body); '
           'class-level mutable containers are part of the shared-state inventory.',
    'C20': 'inline is also applied to a call whose arguments alias the enclosing configuration; the family holds a '
           'callable with a required positional-only parameter in front of defaulted positional-only ones.',
}
for _p, _t in EXTRA3.items():
  CLAIMS[_p]['text'] = CLAIMS[_p]['text'].rstrip() + ' ' + _t

# Members added after the fourth round of seeded changes.
EXTRA4 = {
    'C02': 'A plain dict whose entries share the root is also built, and the argument-less members hold typed-equal '
           'constant tuples.',
    'C04': 'A fourth callable has a positional-only parameter and no *args (keyword override of a '
           'positional-or-keyword parameter at call time).',
    'C08': 'The structure holds a shared tuple whose only non-constant content sits inside a nested tuple.',
    'C09': 'A sixth configuration kind is a list root of 40 objects of a user node type whose flatten creates '
           'temporaries, next to two callables whose names differ by CamelCase / snake_case only.',
    'C10': 'A 20th edit kind removes the value of a tagged argument and changes its tag set in one step; the empty-diff '
           'obligation runs on configurations with NaN leaves.',
    'C11': 'Programs with a free variable rebound after decoration and with a keyword argument named fn_or_cls.',
    'C12': 'A seventh shape holds int-keyed arguments (positional-only parameters, *args behind a positional-or-keyword '
           'parameter, with and without that parameter set).',
    'C18': 'The directive alphabet includes a fiddler that changes the configuration and fails on its first invocation; '
           'after an error the value is read again and no directive may have been applied twice.',
    'C20': 'The family holds one list shared through containers that contain no Buildable.',
}
for _p, _t in EXTRA4.items():
  CLAIMS[_p]['text'] = CLAIMS[_p]['text'].rstrip() + ' ' + _t

# Members added after the fifth round of seeded changes.
EXTRA5 = {
    'C13': 'An eleventh hand-assembled diff refers to parts of new shared values (a child of a shared Config, an element '
           'of a shared list) from changes and from another shared value.',
    'C14': 'A further obligation checks auto_config.with_tags in six call forms (one tag, several tags, a collection, a '
           'collection followed by further tags, two tagged arguments) against the tag sets it is given, the direct call '
           'and set_tagged; another applies a diff that changes a node\'s callable and tags a parameter that only the new '
           'callable has.',
    'C15': 'In the tag-iteration obligation every tagged argument may also carry the base tag T0, so that two of its tags '
           'match the query and it must still be yielded once.',
    'C19': 'The shared-state inventory also lists class attributes stored from inside functions (type(self).x = ..., '
           'cls.x = ...); an unclassified entry makes the run inconclusive.',
}
for _p, _t in EXTRA5.items():
  CLAIMS[_p]['text'] = CLAIMS[_p]['text'].rstrip() + ' ' + _t
