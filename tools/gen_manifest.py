#!/usr/bin/env python3
"""Regenerates /verif/MANIFEST.json from the table below (keeps it schema-valid at all times)."""
import json, os, sys
sys.path.insert(0, '/verif')
from tools.claims import CLAIMS, NOT_APPLICABLE, NOTES

ALL = [f'C{i:02d}' for i in range(1, 21)]
checks = []
for pid in ALL:
  if pid not in CLAIMS:
    continue
  c = CLAIMS[pid]
  checks.append(dict(
      property_id=pid,
      quick_cmd=f'./check {pid} --tier quick',
      thorough_cmd=f'./check {pid} --tier thorough',
      evidence_file=f'/verif/evidence/{pid}.json',
      replay_cmd_template=f'./check {pid} --replay {{path}}',
      engine='A-crosshair' if c['engine'].startswith('A-') else 'B-direct-smt',
      level_claimed=dict(category=c.get('category', 'other'), text=c['text'], design_ref=c.get('design_ref', f'DESIGN.md section 4 ({pid})')),
      level_note=c['note'],
      technique=c['technique'],
  ))
na = [dict(property_id=p, reason=NOT_APPLICABLE[p]) for p in ALL if p not in CLAIMS]
missing = [p for p in ALL if p not in CLAIMS and p not in NOT_APPLICABLE]
assert not missing, missing
manifest = dict(
    version=1,
    setup_cmd='sh /verif/setup.sh',
    hooks=dict(guard='FIDDLE_VERIF', enable='no hooks: checks import the unmodified working tree of /repo (PYTHONPATH=/repo)',
               baseline_off_cmd='cd /repo && /venv/bin/python -m pytest -ra -q -p no:cacheprovider --timeout=900 --continue-on-collection-errors',
               source_commits=[], add_only=True),
    engines=[
        dict(name='A-crosshair', path='/verif/fvrun', serves_properties=[p for p in ALL if p in CLAIMS and 'A-crosshair' in CLAIMS[p]['engine']],
             kind_free_text='CrossHair 0.0.110 symbolic execution of the real fiddle modules with z3, partitioned into cubes (generated wrapper modules), reachability twins, plain-interpreter replay'),
        dict(name='B-direct-smt', path='/verif/engines', serves_properties=[p for p in ALL if p in CLAIMS and 'B' in CLAIMS[p]['engine'].replace('A-crosshair', '')],
             kind_free_text='encodings regenerated from the current source on every run: re._parser -> z3 regex (B1), pure-Python codec stub inside CrossHair (B2), AST -> transition system -> z3 BMC with symbolic schedule (B3)'),
    ],
    checks=checks,
    notes=NOTES,
    not_applicable=na,
)
json.dump(manifest, open('/verif/MANIFEST.json', 'w'), indent=1)
try:
  import jsonschema
  jsonschema.validate(manifest, json.load(open('/root/.vp/MANIFEST.schema.json')))
  print('MANIFEST.json valid;', len(checks), 'claimed,', len(na), 'not applicable')
except ImportError:
  print('written (jsonschema not available to validate)')
