"""Engine B1: translate a Python `re` pattern (as parsed by re._parser) into a z3 regular expression.

\\w and \\d are under-approximated by their ASCII classes (the safe direction for "printed is a subset of parsable").
An unsupported construct raises NotImplementedError: the caller reports the obligation as inconclusive.
"""
from __future__ import annotations

import re
import re._constants as sc
import re._parser as sp

import z3

S = z3.StringSort()
R = z3.ReSort(S)
ANY = z3.AllChar(R)


def rng(a, b):
  return z3.Range(chr(a), chr(b))


CAT = {
    sc.CATEGORY_DIGIT: rng(48, 57),
    sc.CATEGORY_WORD: z3.Union(rng(48, 57), rng(65, 90), rng(97, 122), z3.Re('_')),
    sc.CATEGORY_SPACE: z3.Union(*[z3.Re(c) for c in ' \t\n\r\f\v']),
}


def charset(items):
  neg = False
  parts = []
  for op, av in items:
    if op is sc.NEGATE:
      neg = True
    elif op is sc.LITERAL:
      parts.append(z3.Re(chr(av)))
    elif op is sc.RANGE:
      parts.append(rng(av[0], av[1]))
    elif op is sc.CATEGORY:
      if av not in CAT:
        raise NotImplementedError(f'category {av}')
      parts.append(CAT[av])
    else:
      raise NotImplementedError(f'charset item {op}')
  u = parts[0] if len(parts) == 1 else z3.Union(*parts)
  return z3.Intersect(ANY, z3.Complement(u)) if neg else u


def seq(items):
  rs = [node(op, av) for op, av in items]
  if not rs:
    return z3.Re('')
  return rs[0] if len(rs) == 1 else z3.Concat(*rs)


def node(op, av):
  if op is sc.LITERAL:
    return z3.Re(chr(av))
  if op is sc.NOT_LITERAL:
    return z3.Intersect(ANY, z3.Complement(z3.Re(chr(av))))
  if op is sc.ANY:
    return z3.Intersect(ANY, z3.Complement(z3.Re('\n')))
  if op is sc.IN:
    return charset(av)
  if op is sc.BRANCH:
    return z3.Union(*[seq(alt) for alt in av[1]])
  if op is sc.SUBPATTERN:
    return seq(av[3])
  if op in (sc.MAX_REPEAT, sc.MIN_REPEAT):
    lo, hi, sub = av
    r = seq(sub)
    if hi is sc.MAXREPEAT:
      if lo == 0:
        return z3.Star(r)
      if lo == 1:
        return z3.Plus(r)
      return z3.Concat(*([r] * lo + [z3.Star(r)]))
    return z3.Loop(r, lo, hi)
  if op is sc.AT:
    return z3.Re('')   # ^ $ anchors: callers use fullmatch semantics
  raise NotImplementedError(f'regex construct {op}')


def to_z3(pattern: str):
  return seq(sp.parse(pattern))


def member(s: str, r) -> bool:
  sol = z3.Solver()
  sol.set('timeout', 20000)
  sol.add(z3.InRe(z3.StringVal(s), r))
  return str(sol.check()) == 'sat'


def validate(pattern: str, strings):
  """Number of strings on which re.fullmatch and the z3 encoding disagree."""
  r = to_z3(pattern)
  bad = [s for s in strings if (re.fullmatch(pattern, s) is not None) != member(s, r)]
  return bad
