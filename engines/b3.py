"""Engine B3: AST -> micro-step programs -> z3 bounded model check with a symbolic schedule.

The functions that touch Fiddle's module-level state (build guard, history tracking flag, sequence counter,
signature cache) are read from the *current source* with `ast`, compiled into straight-line micro-operations (one
shared-memory access per operation), and several threads running short programs made of calls to those functions
are unrolled for K steps with the scheduled thread id of every step as a z3 variable.  "unsat" for the negated
property therefore means: no interleaving (at micro-operation granularity, within K steps) makes any thread observe
something it would not observe running alone.

Value domain: integers.  None = -1, False = 0, True = 1, MISSING (absent dict entry) = -2, small ints as themselves,
callable tokens 100 + k, and an uninterpreted "signature of callable c" = 1000 + c.

Whether a piece of state is per-thread or shared is *read from the source*: an instance of a class deriving from
threading.local is per-thread, everything else is shared.  Whether a counter increment is atomic is read from the
initialiser: itertools.count() + next() is one step; anything else is compiled from its own source.
Constructs outside the supported subset raise Unsupported -> the obligation is reported inconclusive.
"""
from __future__ import annotations

import ast
import time

NONE, FALSE, TRUE, MISSING = -1, 0, 1, -2
STACK_DEPTH = 4
TID_BASE = 200
EMPTY = -3            # an empty container literal
OBJ_BASE, OBJ_SITES, OBJ_THREADS = 500, 2, 3     # object tokens: OBJ_BASE + 16 * allocation site + thread index


class Unsupported(Exception):
  pass


class Mod:
  """Module-level facts read from the source."""

  def __init__(self, path, short):
    self.path, self.short = path, short
    self.tree = ast.parse(open(path).read())
    self.funcs = {n.name: n for n in self.tree.body if isinstance(n, ast.FunctionDef)}
    self.classes = {n.name: n for n in self.tree.body if isinstance(n, ast.ClassDef)}
    self.globals = {}     # name -> ('obj', cls) | ('counter',) | ('cache',) | ('plain', value)
    for n in self.tree.body:
      tgt, val = None, None
      if isinstance(n, ast.Assign) and len(n.targets) == 1 and isinstance(n.targets[0], ast.Name):
        tgt, val = n.targets[0].id, n.value
      elif isinstance(n, ast.AnnAssign) and isinstance(n.target, ast.Name) and n.value is not None:
        tgt, val = n.target.id, n.value
      if tgt is None:
        continue
      if isinstance(val, ast.Call):
        f = ast.unparse(val.func)
        if f in self.classes:
          self.globals[tgt] = ('obj', f)
        elif f == 'itertools.count':
          self.globals[tgt] = ('counter',)
        elif f in ('weakref.WeakKeyDictionary', 'dict', 'weakref.WeakValueDictionary') and not val.args:
          self.globals[tgt] = ('cache',)
      elif const_value(val)[0] and (const_value(val)[1] is None or isinstance(const_value(val)[1], (bool, int))):
        self.globals[tgt] = ('plain', const_value(val)[1])
      elif isinstance(val, ast.Lambda) and isinstance(val.body, ast.Constant) and val.body.value is None:
        self.globals[tgt] = ('plain', None)        # a "dead weak reference": calling it yields None
      elif isinstance(val, ast.Dict) and not val.keys:
        self.globals[tgt] = ('cache',)

  def is_thread_local(self, cls):
    return any(ast.unparse(b) in ('threading.local', 'local') for b in self.classes[cls].bases)

  def attr_defaults(self, cls):
    out = {}
    c = self.classes[cls]
    for n in c.body:
      if isinstance(n, ast.AnnAssign) and isinstance(n.target, ast.Name) and n.value is not None and const_value(n.value)[0]:
        out[n.target.id] = const_value(n.value)[1]
      if isinstance(n, ast.Assign) and isinstance(n.targets[0], ast.Name) and const_value(n.value)[0]:
        out[n.targets[0].id] = const_value(n.value)[1]
    for n in ast.walk(c):
      if isinstance(n, ast.Assign) and isinstance(n.targets[0], ast.Attribute) and \
          ast.unparse(n.targets[0].value) == 'self' and const_value(n.value)[0]:
        out[n.targets[0].attr] = const_value(n.value)[1]
    return out

  def method(self, cls, name):
    for n in self.classes[cls].body:
      if isinstance(n, ast.FunctionDef) and n.name == name:
        return n
    return None

  def prop(self, cls, name, setter=False):
    """The getter (or setter) of a property `name` defined in class `cls`, else None."""
    for n in self.classes[cls].body:
      if isinstance(n, ast.FunctionDef) and n.name == name:
        decos = [ast.unparse(d) for d in n.decorator_list]
        if not setter and 'property' in decos:
          return n
        if setter and f'{name}.setter' in decos:
          return n
    return None

  def dict_attrs(self, cls):
    """{attr: per_instance} for attributes that hold a dict: created per instance (dataclass default_factory=dict,
    or assigned in __init__) or once at class level (`x = {}`, `x: ClassVar[...] = {}`: shared by all instances)."""
    out = {}
    c = self.classes[cls]
    for n in c.body:
      tgt = val = None
      if isinstance(n, ast.Assign) and isinstance(n.targets[0], ast.Name):
        tgt, val = n.targets[0].id, n.value
      elif isinstance(n, ast.AnnAssign) and isinstance(n.target, ast.Name) and n.value is not None:
        tgt, val = n.target.id, n.value
      if tgt is None:
        continue
      if (isinstance(val, ast.Dict) and not val.keys) or (isinstance(val, ast.Call) and ast.unparse(val.func) == 'dict' and
                                                           not val.args and not val.keywords):
        out[tgt] = False
      elif isinstance(val, ast.Call) and 'field' in ast.unparse(val.func) and \
          any(k.arg == 'default_factory' and ast.unparse(k.value) == 'dict' for k in val.keywords):
        out[tgt] = True
    init = self.method(cls, '__init__')
    if init is not None:
      for n in ast.walk(init):
        if isinstance(n, ast.Assign) and isinstance(n.targets[0], ast.Attribute) and \
            ast.unparse(n.targets[0].value) == 'self' and isinstance(n.value, ast.Dict) and not n.value.keys:
          out[n.targets[0].attr] = True
    return out

  def add_instance(self, name, cls, per_thread):
    """Declares a synthetic object `name` of class `cls`; per_thread: every thread works on its own instance."""
    self.globals[name] = ('obj', cls)
    if per_thread:
      self.thread_instances = getattr(self, 'thread_instances', set()) | {name}

  def instance_is_private(self, name):
    kind = self.globals.get(name)
    return name in getattr(self, 'thread_instances', set()) or (kind and kind[0] == 'obj' and self.is_thread_local(kind[1]))

  def stack_attrs(self, cls):
    """{attr: per_instance} for attributes initialised with an empty list.  A list created at class level is ONE
    object shared by all instances and - for a threading.local subclass - by all threads; a list created in __init__
    (or by a dataclass default_factory) exists once per instance / per thread."""
    out = {}
    c = self.classes[cls]
    for n in c.body:
      tgt = val = None
      if isinstance(n, ast.Assign) and isinstance(n.targets[0], ast.Name):
        tgt, val = n.targets[0].id, n.value
      elif isinstance(n, ast.AnnAssign) and isinstance(n.target, ast.Name) and n.value is not None:
        tgt, val = n.target.id, n.value
      if tgt is None:
        continue
      if isinstance(val, ast.List) and not val.elts:
        out[tgt] = False
      elif isinstance(val, ast.Call) and 'field' in ast.unparse(val.func) and \
          any(k.arg == 'default_factory' and ast.unparse(k.value) == 'list' for k in val.keywords):
        out[tgt] = True
    init = self.method(cls, '__init__')
    if init is not None:
      for n in ast.walk(init):
        if isinstance(n, ast.Assign) and isinstance(n.targets[0], ast.Attribute) and \
            ast.unparse(n.targets[0].value) == 'self' and isinstance(n.value, ast.List) and not n.value.elts:
          out[n.targets[0].attr] = True
    return out


def const_value(node):
  """(True, value) for a literal constant incl. negative numbers, else (False, None)."""
  if isinstance(node, ast.Constant):
    return True, node.value
  if isinstance(node, ast.UnaryOp) and isinstance(node.op, ast.USub) and isinstance(node.operand, ast.Constant) and \
      isinstance(node.operand.value, int):
    return True, -node.operand.value
  return False, None


def enc(v):
  if v is None:
    return NONE
  if v is True:
    return TRUE
  if v is False:
    return FALSE
  if isinstance(v, int):
    return v
  raise Unsupported(f'constant {v!r}')


# micro-ops (lists): [kind, ..., lineno]
#   load tmp loc | store loc expr | fetchadd tmp loc | br expr Ltrue Lfalse | jmp L | local | event tmp
#   obs name expr | fail kind | ret
# loc = (module, name, attr_or_key_or_None)        expr = ('const', n) | ('tmp', t) | ('not', e) | ('eq', a, b) |
#                                                         ('ne', a, b) | ('and', a, b) | ('or', a, b) | ('add', a, b) | ('sig', e)

class Compiler:
  """Compiles calls of module functions into micro-ops with everything inlined."""

  def __init__(self, mods, keys):
    self.mods = mods            # short name -> Mod
    self.keys = keys            # cache key tokens used by the programs
    self.ops = []
    self.ntmp = 0
    self.handlers = []          # stack of dicts: {'except': {kind: label-list}, 'finally': [stmts], env, mod}
    self.locs = {}              # loc -> initial value
    self.body_hooks = []
    self.thread_local = set()
    self.nsites = 0

  # ---------------------------------------------------------------- heap objects (instances created by the code itself)
  def obj_tokens(self):
    return [OBJ_BASE + 16 * n + t for n in range(OBJ_SITES) for t in range(OBJ_THREADS)]

  def obj_class(self, node, env, mod):
    """Class of the object a local name holds: recorded at its assignment, else None."""
    if isinstance(node, ast.Name):
      return env.get('$types', {}).get(node.id)
    return None

  def field_access(self, cls, attr, objexpr, lineno, store=None):
    """Load (store is None) or store field `attr` of the object whose token `objexpr` evaluates to: the object may
    have been allocated by any thread, so the access dispatches over every possible token; the cells are shared."""
    out = self.tmp() if store is None else None
    if out is not None:
      self.emit('store', ('tmp', out), ('const', MISSING), lineno)
    ends = []
    for tok in self.obj_tokens():
      br = self.emit('br', ('eq', objexpr, ('const', tok)), None, None, lineno)
      self.ops[br][2] = self.here()
      loc = ('heap', cls, f'{attr}@{tok}')
      self.locs.setdefault(loc, MISSING)
      if store is None:
        self.emit('load', out, loc, lineno)
      else:
        self.emit('store', loc, store, lineno)
      ends.append(self.emit('jmp', None, lineno))
      self.ops[br][3] = self.here()
    for j in ends:
      self.ops[j][1] = self.here()
    return ('tmp', out) if out is not None else None

  # ---------------------------------------------------------------- helpers
  def tmp(self):
    self.ntmp += 1
    return f't{self.ntmp}'

  def emit(self, *op):
    self.ops.append(list(op))
    return len(self.ops) - 1

  def here(self):
    return len(self.ops)

  def declare(self, mod, name, sub=None):
    kind = mod.globals.get(name)
    if kind is None:
      raise Unsupported(f'{mod.short}.{name}: unclassified module-level state')
    loc = (mod.short, name, sub)
    if loc in self.locs:
      return loc
    if kind[0] == 'obj' and isinstance(sub, tuple):
      # (dict attribute, key token): one cell per key; per-instance dicts of a per-thread instance are private
      attr, _ = sub
      per_instance = mod.dict_attrs(kind[1])[attr]
      self.locs[loc] = MISSING
      if per_instance and mod.instance_is_private(name):
        self.thread_local.add(loc)
      return loc
    if kind[0] == 'obj' and sub in mod.stack_attrs(kind[1]):
      per_instance = mod.stack_attrs(kind[1])[sub]
      cells = [(mod.short, name, f'{sub}#len')] + [(mod.short, name, f'{sub}#{j}') for j in range(STACK_DEPTH)]
      for c in cells:
        self.locs[c] = 0
        if per_instance and mod.is_thread_local(kind[1]):
          self.thread_local.add(c)
      self.locs[loc] = 0                       # the base name itself stands for the list object (never read)
      if per_instance and mod.is_thread_local(kind[1]):
        self.thread_local.add(loc)
      return loc
    if kind[0] == 'obj':
      d = mod.attr_defaults(kind[1])
      if sub not in d:
        raise Unsupported(f'{mod.short}.{name}.{sub}: no constant initial value found')
      self.locs[loc] = enc(d[sub])
      if mod.instance_is_private(name):
        self.thread_local.add(loc)
    elif kind[0] == 'counter':
      self.locs[loc] = 0
    elif kind[0] == 'cache':
      self.locs[loc] = MISSING
    else:
      self.locs[loc] = enc(kind[1])
    return loc

  # ---------------------------------------------------------------- expressions
  def expr(self, node, env, mod):
    if const_value(node)[0]:
      return ('const', enc(const_value(node)[1]))
    if isinstance(node, ast.Name):
      if node.id in env:
        return env[node.id]
      if node.id in mod.globals:
        kind = mod.globals[node.id]
        if kind[0] == 'plain':
          t = self.tmp()
          self.emit('load', t, self.declare(mod, node.id), node.lineno)
          return ('tmp', t)
        return ('global', node.id)
      if node.id in mod.classes or node.id in mod.funcs:
        return ('const', NONE)                 # a class / function object: immutable, carries no state of interest
      raise Unsupported(f'name {node.id}')
    if isinstance(node, (ast.Dict, ast.List)) and not (node.keys if isinstance(node, ast.Dict) else node.elts):
      return ('const', EMPTY)
    if isinstance(node, ast.Attribute) and isinstance(node.value, ast.Name) and node.value.id in env and \
        env[node.value.id][0] != 'global' and self.obj_class(node.value, env, mod):
      return self.field_access(self.obj_class(node.value, env, mod), node.attr, env[node.value.id], node.lineno)
    if isinstance(node, ast.Attribute):
      base = node.value
      if isinstance(base, ast.Name) and base.id in env and env[base.id][0] == 'global':
        base = ast.Name(id=env[base.id][1])
      if isinstance(base, ast.Name) and base.id in mod.globals and mod.globals[base.id][0] == 'obj':
        getter = mod.prop(mod.globals[base.id][1], node.attr)
        if getter is not None:
          return self.inline(getter, [('global', base.id)], {}, mod, node.lineno)
        t = self.tmp()
        self.emit('load', t, self.declare(mod, base.id, node.attr), node.lineno)
        return ('tmp', t)
      if isinstance(base, ast.Name) and base.id in mod.classes and base.id not in env:
        return ('const', NONE)                 # class attribute (e.g. an enum member): a constant
      raise Unsupported(f'attribute {ast.unparse(node)}')
    if isinstance(node, ast.UnaryOp) and isinstance(node.op, ast.Not):
      return ('not', self.expr(node.operand, env, mod))
    if isinstance(node, ast.BoolOp):
      vals = [self.expr(v, env, mod) for v in node.values]     # (no short-circuit: operands here are side-effect free loads)
      out = vals[0]
      for v in vals[1:]:
        out = ('and' if isinstance(node.op, ast.And) else 'or', out, v)
      return out
    if isinstance(node, ast.Compare) and len(node.ops) == 1 and isinstance(node.ops[0], (ast.In, ast.NotIn)):
      target = node.comparators[0]
      name = self.obj_dict(target, env, mod)
      if name is None and isinstance(target, ast.Name) and mod.globals.get(target.id, ('',))[0] == 'cache':
        name = target.id
      if name is None:
        raise Unsupported('membership test ' + ast.unparse(node))
      got = self.keyed_load(name, self.expr(node.left, env, mod), mod, node.lineno)
      return ('ne' if isinstance(node.ops[0], ast.In) else 'eq', got, ('const', MISSING))
    if isinstance(node, ast.Compare) and len(node.ops) == 1:
      a = self.expr(node.left, env, mod)
      b = self.expr(node.comparators[0], env, mod)
      if isinstance(node.ops[0], (ast.Is, ast.Eq)):
        return ('eq', a, b)
      if isinstance(node.ops[0], (ast.IsNot, ast.NotEq)):
        return ('ne', a, b)
      raise Unsupported('comparison ' + ast.unparse(node))
    if isinstance(node, ast.BinOp) and isinstance(node.op, ast.Add):
      return ('add', self.expr(node.left, env, mod), self.expr(node.right, env, mod))
    if isinstance(node, ast.Subscript):
      return self.subscript_load(node, env, mod)
    if isinstance(node, ast.Tuple) and node.elts:
      vals = [self.expr(e, env, mod) for e in node.elts]
      return vals[-1]                                   # an entry tuple stands for its payload (last component)
    if isinstance(node, ast.IfExp):
      return ('ite', self.expr(node.test, env, mod), self.expr(node.body, env, mod), self.expr(node.orelse, env, mod))
    if isinstance(node, ast.Call):
      return self.call(node, env, mod)
    raise Unsupported('expression ' + ast.unparse(node)[:60])

  def obj_dict(self, node, env, mod):
    """(object name, attr) when `node` is `<object>.<dict attribute>` (also through `self`), else None."""
    if not isinstance(node, ast.Attribute):
      return None
    base = node.value
    if isinstance(base, ast.Name) and base.id in env and env[base.id][0] == 'global':
      base = ast.Name(id=env[base.id][1])
    if isinstance(base, ast.Name) and mod.globals.get(base.id, ('',))[0] == 'obj' and \
        node.attr in mod.dict_attrs(mod.globals[base.id][1]):
      return base.id, node.attr
    return None

  def dict_cell(self, mod, name, k):
    """loc of cache[k]: name is a module-level dict, or (object, attr) for a dict attribute."""
    if isinstance(name, tuple):
      return self.declare(mod, name[0], (name[1], k))
    return self.declare(mod, name, k)

  def keyed_load(self, name, key, mod, lineno):
    """tmp holding cache[key] or MISSING (no KeyError): dispatch on the thread-private key, one load per key token."""
    out = self.tmp()
    self.emit('store', ('tmp', out), ('const', MISSING), lineno)
    ends = []
    for k in self.keys:
      br = self.emit('br', ('eq', key, ('const', k)), None, None, lineno)
      self.ops[br][2] = self.here()
      self.emit('load', out, self.dict_cell(mod, name, k), lineno)
      ends.append(self.emit('jmp', None, lineno))
      self.ops[br][3] = self.here()
    for j in ends:
      self.ops[j][1] = self.here()
    return ('tmp', out)

  def cache_loc(self, node, env, mod):
    """(dict, key expr) for cache[key] where cache is a module-level dict or a dict attribute of an object."""
    inner = node.value
    if isinstance(inner, ast.Subscript) and self.obj_dict(inner.value, env, mod):
      node = inner                        # d[k][i]: the entry itself stands for its components
    od = self.obj_dict(node.value, env, mod)
    if od is not None:
      return od, self.expr(node.slice, env, mod)
    if isinstance(node.value, ast.Name) and mod.globals.get(node.value.id, ('',))[0] == 'cache':
      key = node.slice
      if isinstance(key, ast.Tuple):
        key = key.elts[0]             # (fn_or_cls, flag): keyed by the callable for our purposes
      return node.value.id, self.expr(key, env, mod)
    raise Unsupported('subscript ' + ast.unparse(node))

  def subscript_load(self, node, env, mod):
    name, key = self.cache_loc(node, env, mod)
    out = self.tmp()
    # dispatch on the (thread-private) key value: one shared load per key token
    end_jumps = []
    for k in self.keys:
      br = self.emit('br', ('eq', key, ('const', k)), None, None, node.lineno)
      self.ops[br][2] = self.here()
      self.emit('load', out, self.dict_cell(mod, name, k), node.lineno)
      end_jumps.append(self.emit('jmp', None, node.lineno))
      self.ops[br][3] = self.here()
    self.emit('fail', 'KeyError', node.lineno)            # unknown key: treated as missing
    for j in end_jumps:
      self.ops[j][1] = self.here()
    # a MISSING entry raises KeyError
    br = self.emit('br', ('eq', ('tmp', out), ('const', MISSING)), None, None, node.lineno)
    self.ops[br][2] = self.here()
    self.raise_('KeyError', node.lineno)
    self.ops[br][3] = self.here()
    return ('tmp', out)

  def stack_base(self, node, env, mod):
    """loc of the list behind `<module-level object>.<list attribute>`, else None."""
    if not isinstance(node, ast.Attribute):
      return None
    base = node.value
    if isinstance(base, ast.Name) and base.id in env and env[base.id][0] == 'global':
      base = ast.Name(id=env[base.id][1])
    if isinstance(base, ast.Name) and base.id in mod.globals and mod.globals[base.id][0] == 'obj' and \
        node.attr in mod.stack_attrs(mod.globals[base.id][1]):
      return self.declare(mod, base.id, node.attr)
    return None

  def call(self, node, env, mod):
    f = node.func
    fname = ast.unparse(f)
    if fname in ('threading.get_ident', 'get_ident') and not node.args:
      return ('tid',)
    if isinstance(f, ast.Name) and f.id in mod.classes and f.id not in PURE_CALLS and not node.args and not node.keywords and \
        mod.method(f.id, '__init__') is not None and \
        any(isinstance(n, ast.FunctionDef) and not n.name.startswith('__') for n in mod.classes[f.id].body):
      # a fresh instance: its token is unique per allocation site and thread, its fields live in shared cells
      if self.nsites >= OBJ_SITES:
        raise Unsupported('more object allocation sites than the heap model provides')
      tok = ('add', ('const', OBJ_BASE + 16 * self.nsites - TID_BASE), ('tid',))
      self.nsites += 1
      t = self.tmp()
      self.emit('store', ('tmp', t), tok, node.lineno)
      init = mod.method(f.id, '__init__')
      ienv_types = {'self': f.id}
      self.inline(init, [('tmp', t)], {}, mod, node.lineno, types=ienv_types)
      return ('objref', f.id, ('tmp', t))
    if isinstance(f, ast.Attribute) and isinstance(f.value, ast.Name) and f.value.id in env and env[f.value.id][0] != 'global':
      cls = self.obj_class(f.value, env, mod)
      if cls is None:
        owners = [c for c in mod.classes if mod.method(c, f.attr) is not None]
        cls = owners[0] if len(owners) == 1 else None       # the only class of the module with such a method
      if cls is not None and mod.method(cls, f.attr) is not None:
        args = [self.expr(a, env, mod) for a in node.args]
        kwargs = {k.arg: self.expr(k.value, env, mod) for k in node.keywords}
        return self.inline(mod.method(cls, f.attr), [env[f.value.id]] + args, kwargs, mod, node.lineno, types={'self': cls})
    if fname == 'id' and len(node.args) == 1:
      return self.expr(node.args[0], env, mod)          # objects are their identity tokens
    if isinstance(f, ast.Attribute) and isinstance(f.value, ast.Name) and f.value.id in env and \
        env[f.value.id][0] == 'global' and mod.globals.get(env[f.value.id][1], ('',))[0] == 'obj':
      cls = mod.globals[env[f.value.id][1]][1]
      meth = mod.method(cls, f.attr)
      args = [self.expr(a, env, mod) for a in node.args]
      if meth is not None:
        return self.inline(meth, [env[f.value.id]] + args, {}, mod, node.lineno)
      # a callable stored on the object (e.g. the user's traversal function): thread-private work
      self.emit('local', node.lineno)
      return ('const', NONE)
    if isinstance(f, ast.Attribute) and f.attr == 'pop' and not node.args:
      sb = self.stack_base(f.value, env, mod)
      if sb is not None:
        t = self.tmp()
        self.emit('pop', t, sb, node.lineno)           # list.pop(): one C-level step under the GIL
        br = self.emit('br', ('eq', ('tmp', t), ('const', MISSING)), None, None, node.lineno)
        self.ops[br][2] = self.here()
        self.raise_('IndexError', node.lineno)
        self.ops[br][3] = self.here()
        return ('tmp', t)
    # next(counter) / next(obj with __next__)
    if fname == 'next' and len(node.args) == 1 and isinstance(node.args[0], ast.Name):
      g = node.args[0].id
      kind = mod.globals.get(g)
      if kind and kind[0] == 'counter':
        t = self.tmp()
        self.emit('fetchadd', t, self.declare(mod, g), node.lineno)     # C-level, atomic under the GIL
        return ('tmp', t)
      if kind and kind[0] == 'obj' and mod.method(kind[1], '__next__'):
        return self.inline(mod.method(kind[1], '__next__'), [('global', g)], {}, mod, node.lineno)
      raise Unsupported(f'next({g})')
    if isinstance(f, ast.Name) and f.id in STUBS:
      args = [self.expr(a, env, mod) for a in node.args]
      return STUBS[f.id](self, args, node.lineno)
    if isinstance(f, ast.Name) and f.id in mod.funcs:
      args = [self.expr(a, env, mod) for a in node.args]
      kwargs = {k.arg: self.expr(k.value, env, mod) for k in node.keywords}
      return self.inline(mod.funcs[f.id], args, kwargs, mod, node.lineno)
    if isinstance(f, ast.Name) and f.id in env and env[f.id][0] in ('tmp', 'const') and not node.args:
      return env[f.id]                                                   # calling a weak reference: its referent
    if isinstance(f, ast.Name) and f.id in mod.globals and mod.globals[f.id][0] == 'plain' and not node.args:
      return self.expr(f, env, mod)                                      # calling a module-level weak reference
    if fname in ('weakref.ref',) and len(node.args) == 1:
      return self.expr(node.args[0], env, mod)
    if isinstance(f, ast.Name) and f.id in STUBS:
      args = [self.expr(a, env, mod) for a in node.args]
      return STUBS[f.id](self, args, node.lineno)
    if isinstance(f, ast.Name) and f.id in mod.classes or fname in PURE_CALLS:
      for a in node.args:
        self.expr(a, env, mod)
      vals = {k.arg: self.expr(k.value, env, mod) for k in node.keywords}
      if 'sequence_id' in vals:
        return ('entry', vals['sequence_id'])
      return ('const', NONE)
    raise Unsupported('call ' + fname)

  def inline(self, fn, args, kwargs, mod, lineno, types=None):
    env = {}
    if types:
      env['$types'] = dict(types)
    params = [a.arg for a in fn.args.posonlyargs + fn.args.args + fn.args.kwonlyargs]
    for p, a in zip(params, args):
      env[p] = a
    env.update(kwargs)
    ret = self.tmp()
    done = []
    self.handlers.append({'return': (ret, done), 'barrier': True})
    self.block(fn.body, env, mod)
    self.handlers.pop()
    self.emit('store', ('tmp', ret), ('const', NONE), lineno)
    for j in done:
      self.ops[j][1] = self.here()
    return ('tmp', ret)

  # ---------------------------------------------------------------- statements
  def block(self, stmts, env, mod):
    for st in stmts:
      self.stmt(st, env, mod)

  def run_finally(self, h):
    if callable(h['finally']):
      h['finally']()
    else:
      self.block(h['finally'], h['env'], h['mod'])

  def raise_(self, kind, lineno):
    """Compile-time dispatch: jump into the innermost matching handler, running finally blocks on the way."""
    i = len(self.handlers) - 1
    while i >= 0:
      h = self.handlers[i]
      if 'finally' in h:
        saved = self.handlers
        self.handlers = self.handlers[:i]
        self.run_finally(h)
        self.handlers = saved
      if 'except' in h:
        for names, pending in h['except']:
          if names is None or kind in names:
            pending.append(self.emit('jmp', None, lineno))
            return
      i -= 1
    self.emit('fail', kind, lineno)

  def stmt(self, st, env, mod):
    if isinstance(st, ast.Expr) and isinstance(st.value, ast.Constant):
      return
    if isinstance(st, (ast.Global, ast.Pass)):
      return
    if isinstance(st, ast.Expr) and isinstance(st.value, ast.Yield):
      if not self.body_hooks:
        raise Unsupported('yield outside a context manager')
      hook = self.body_hooks.pop()
      hook()
      self.body_hooks.append(hook)
      return
    if isinstance(st, ast.Expr):
      # self[param].append(entry) -> record the history entry
      v = st.value
      if isinstance(v, ast.Call) and isinstance(v.func, ast.Attribute) and v.func.attr == 'append' and v.args and \
          self.stack_base(v.func.value, env, mod) is not None:
        e = self.expr(v.args[0], env, mod)
        self.emit('push', self.stack_base(v.func.value, env, mod), e, st.lineno)   # list.append(): one C-level step
        return
      if isinstance(v, ast.Call) and isinstance(v.func, ast.Attribute) and v.func.attr == 'append' and v.args:
        e = self.expr(v.args[0], env, mod)
        self.emit('event', e, st.lineno)       # <history list>.append(entry): records the entry's sequence id
        return
      self.expr(v, env, mod)
      return
    if isinstance(st, ast.Assign) and len(st.targets) > 1:
      # a = b[k] = value: evaluate once, assign left to right
      val = self.expr(st.value, env, mod)
      holder = '$chain%d' % st.lineno
      cls = val[1] if val[0] == 'objref' else None
      env[holder] = val[2] if val[0] == 'objref' else val
      if cls:
        env.setdefault('$types', {})[holder] = cls
      for tgt in st.targets:
        self.stmt(ast.copy_location(ast.Assign(targets=[tgt], value=ast.Name(id=holder, ctx=ast.Load()), lineno=st.lineno), st), env, mod)
      return
    if isinstance(st, (ast.Assign, ast.AnnAssign, ast.AugAssign)):
      tgt = st.targets[0] if isinstance(st, ast.Assign) else st.target
      if isinstance(st, ast.AugAssign):
        if not isinstance(st.op, ast.Add):
          raise Unsupported('augmented assignment ' + ast.unparse(st))
        val = ('add', self.expr(tgt, env, mod), self.expr(st.value, env, mod))   # read ... then write: two steps
      else:
        val = self.expr(st.value, env, mod)
      vcls = None
      if val[0] == 'objref':
        vcls, val = val[1], val[2]
      elif isinstance(st.value, ast.Name):
        vcls = env.get('$types', {}).get(st.value.id)
      if isinstance(tgt, ast.Name):
        types = env.setdefault('$types', {})
        if vcls:
          types[tgt.id] = vcls
        if tgt.id in mod.globals and mod.globals[tgt.id][0] == 'plain':
          self.emit('store', self.declare(mod, tgt.id), val, st.lineno)
        elif val[0] == 'global':
          env[tgt.id] = val                      # a reference to a module-level object: compile-time alias
        else:
          # every local variable lives in one fixed per-thread cell, so that assignments on different paths
          # (try / except, if / else) are all seen by later reads
          slot = env.setdefault('$slots', {})
          if tgt.id not in slot:
            slot[tgt.id] = self.tmp()
          self.emit('store', ('tmp', slot[tgt.id]), val, st.lineno)
          env[tgt.id] = ('tmp', slot[tgt.id])
        return
      if isinstance(tgt, ast.Attribute) and isinstance(tgt.value, ast.Name) and tgt.value.id in env and \
          env[tgt.value.id][0] != 'global' and self.obj_class(tgt.value, env, mod):
        self.field_access(self.obj_class(tgt.value, env, mod), tgt.attr, env[tgt.value.id], st.lineno, store=val)
        return
      if isinstance(tgt, ast.Attribute):
        base = tgt.value
        if isinstance(base, ast.Name) and base.id in env and env[base.id][0] == 'global':
          base = ast.Name(id=env[base.id][1])
        if isinstance(base, ast.Name) and base.id in mod.globals and mod.globals[base.id][0] == 'obj':
          setter = mod.prop(mod.globals[base.id][1], tgt.attr, setter=True)
          if setter is not None:
            self.inline(setter, [('global', base.id), val], {}, mod, st.lineno)
            return
          if mod.prop(mod.globals[base.id][1], tgt.attr) is not None:
            raise Unsupported(f'assignment to read-only property {tgt.attr}')
          self.emit('store', self.declare(mod, base.id, tgt.attr), val, st.lineno)
          return
      if isinstance(tgt, ast.Subscript):
        name, key = self.cache_loc(tgt, env, mod)
        ends = []
        for k in self.keys:
          br = self.emit('br', ('eq', key, ('const', k)), None, None, st.lineno)
          self.ops[br][2] = self.here()
          self.emit('store', self.dict_cell(mod, name, k), val, st.lineno)
          ends.append(self.emit('jmp', None, st.lineno))
          self.ops[br][3] = self.here()
        for j in ends:
          self.ops[j][1] = self.here()
        return
      raise Unsupported('assignment ' + ast.unparse(st)[:60])
    if isinstance(st, ast.Delete) and len(st.targets) == 1 and isinstance(st.targets[0], ast.Subscript):
      name, key = self.cache_loc(st.targets[0], env, mod)
      got = self.keyed_load(name, key, mod, st.lineno)
      br = self.emit('br', ('eq', got, ('const', MISSING)), None, None, st.lineno)
      self.ops[br][2] = self.here()
      self.raise_('KeyError', st.lineno)
      self.ops[br][3] = self.here()
      ends = []
      for k in self.keys:
        b2 = self.emit('br', ('eq', key, ('const', k)), None, None, st.lineno)
        self.ops[b2][2] = self.here()
        self.emit('store', self.dict_cell(mod, name, k), ('const', MISSING), st.lineno)
        ends.append(self.emit('jmp', None, st.lineno))
        self.ops[b2][3] = self.here()
      for j in ends:
        self.ops[j][1] = self.here()
      return
    if isinstance(st, ast.If):
      c = self.expr(st.test, env, mod)
      br = self.emit('br', c, None, None, st.lineno)
      self.ops[br][2] = self.here()
      self.block(st.body, env, mod)
      j = self.emit('jmp', None, st.lineno)
      self.ops[br][3] = self.here()
      self.block(st.orelse, env, mod)
      self.ops[j][1] = self.here()
      return
    if isinstance(st, ast.Raise):
      kind = 'Exception'
      if st.exc is not None:
        kind = ast.unparse(st.exc.func if isinstance(st.exc, ast.Call) else st.exc)
      self.raise_(kind, st.lineno)
      return
    if isinstance(st, ast.Return):
      val = self.expr(st.value, env, mod) if st.value is not None else ('const', NONE)
      # run enclosing finally blocks of this function, then jump to its end
      i = len(self.handlers) - 1
      while i >= 0 and 'return' not in self.handlers[i]:
        h = self.handlers[i]
        if 'finally' in h:
          saved = self.handlers
          self.handlers = self.handlers[:i]
          self.run_finally(h)
          self.handlers = saved
        i -= 1
      if i < 0:
        raise Unsupported('return outside an inlined function')
      ret, done = self.handlers[i]['return']
      self.emit('store', ('tmp', ret), val, st.lineno)
      done.append(self.emit('jmp', None, st.lineno))
      return
    if isinstance(st, ast.Try):
      excepts = []
      for h in st.handlers:
        names = None
        if h.type is not None:
          names = [ast.unparse(e) for e in (h.type.elts if isinstance(h.type, ast.Tuple) else [h.type])]
        excepts.append((names, []))
      frame = {'env': env, 'mod': mod}
      if excepts:
        frame['except'] = excepts
      if st.finalbody:
        frame['finally'] = st.finalbody
      self.handlers.append(frame)
      self.block(st.body, env, mod)
      self.handlers.pop()
      self.block(st.orelse, env, mod)
      if st.finalbody:
        self.block(st.finalbody, env, mod)              # normal completion
      end = [self.emit('jmp', None, st.lineno)]
      for (names, pending), h in zip(excepts, st.handlers):
        for j in pending:
          self.ops[j][1] = self.here()
        if st.finalbody:
          self.handlers.append({'finally': st.finalbody, 'env': env, 'mod': mod})
        self.block(h.body, env, mod)
        if st.finalbody:
          self.handlers.pop()
          self.block(st.finalbody, env, mod)
        end.append(self.emit('jmp', None, st.lineno))
      for j in end:
        self.ops[j][1] = self.here()
      return
    raise Unsupported('statement ' + type(st).__name__)

  # ---------------------------------------------------------------- context managers
  def with_(self, mod, fname, body_fn):
    """`with mod.fname(): body` - the generator-based context manager is compiled with the body in place of its yield,
    so that the manager's try / finally frames are on the handler stack while the body is compiled."""
    fn = mod.funcs[fname]
    if not any(ast.unparse(d).endswith('contextmanager') for d in fn.decorator_list):
      # a function returning an object with __enter__ / __exit__: a module-level instance, or a fresh stateless one
      rets = [n for n in ast.walk(fn) if isinstance(n, ast.Return)]
      body = [n for n in fn.body if not (isinstance(n, ast.Expr) and isinstance(n.value, ast.Constant))]
      cls = gname = None
      if len(rets) == 1 and len(body) == 1 and rets[0].value is not None:
        v = rets[0].value
        if isinstance(v, ast.Name) and mod.globals.get(v.id, ('',))[0] == 'obj':
          cls, gname = mod.globals[v.id][1], v.id
        elif isinstance(v, ast.Call) and isinstance(v.func, ast.Name) and v.func.id in mod.classes and not v.args and \
            not v.keywords and not mod.attr_defaults(v.func.id) and not mod.stack_attrs(v.func.id):
          cls, gname = v.func.id, None
      if cls is None or mod.method(cls, '__enter__') is None or mod.method(cls, '__exit__') is None:
        raise Unsupported(f'{fname} is neither a contextlib.contextmanager nor returns an object with __enter__/__exit__')
      me = ('global', gname) if gname else ('const', NONE)
      exit_fn = mod.method(cls, '__exit__')
      nargs = len(exit_fn.args.args) - 1

      def do_exit():
        self.inline(exit_fn, [me] + [('const', NONE)] * nargs, {}, mod, exit_fn.lineno)
      self.inline(mod.method(cls, '__enter__'), [me], {}, mod, fn.lineno)
      self.handlers.append({'finally': do_exit, 'env': {}, 'mod': mod})
      body_fn()
      self.handlers.pop()
      do_exit()                                # normal completion (__exit__ returning a true value is not modelled)
      return
    n_yield = sum(isinstance(n, ast.Yield) for n in ast.walk(fn))
    if n_yield != 1:
      raise Unsupported(f'{fname}: expected exactly one yield, found {n_yield}')
    self.body_hooks.append(body_fn)
    frame = {'return': (self.tmp(), []), 'barrier': True}
    self.handlers.append(frame)
    self.block(fn.body, {}, mod)
    self.handlers.pop()
    self.body_hooks.pop()
    for j in frame['return'][1]:
      self.ops[j][1] = self.here()


def _stub_sig(comp, args, lineno):
  """_get_signature_uncached(fn): thread-private computation; its value is a function of the callable."""
  comp.emit('local', lineno)
  return ('sig', args[0])


def _stub_true(comp, args, lineno):
  comp.emit('local', lineno)
  return ('const', TRUE)


STUBS = {'_get_signature_uncached': _stub_sig, '_get_type_hints_uncached': _stub_sig, 'is_internable': _stub_true}
PURE_CALLS = {'_location_provider', 'frozenset', 'HistoryEntry'}


# ----------------------------------------------------------------------------- BMC

class System:
  """Threads running micro-op programs; bmc() unrolls one *visible* step (a shared-memory access followed by the
  thread-private operations up to the next shared access) per time step, with the scheduled thread symbolic."""

  MAX_EV = 4

  def __init__(self, progs, locs, thread_local):
    self.progs, self.locs, self.tl = progs, locs, thread_local
    self.T = len(progs)
    self.line_granular = True

  def visible(self, o):
    if o[0] in ('load', 'fetchadd', 'pop'):
      return o[2] not in self.tl
    if o[0] == 'push':
      return o[1] not in self.tl
    if o[0] == 'store':
      return o[1][0] != 'tmp' and o[1] not in self.tl
    return False

  def longest_visible_path(self, prog):
    """Largest number of shared accesses on any control-flow path of the program (jumps only go forward): the number
    of scheduler steps the thread can need.  (Counting every shared access in the text over-estimates wildly once
    accesses are dispatched over keys / object tokens: one branch of many executes.)"""
    n = len(prog)
    best = [0] * (n + 1)
    for pc in range(n - 1, -1, -1):
      o = prog[pc]
      if o[0] == 'br':
        nxt = max(best[min(o[2], n)], best[min(o[3], n)])
      elif o[0] == 'jmp':
        nxt = best[min(o[1], n)]
      elif o[0] in ('fail', 'ret'):
        nxt = 0
      else:
        nxt = best[pc + 1]
      best[pc] = nxt + (1 if self.visible(o) else 0)
    return best[0]

  def bmc(self, K=None, timeout_ms=120000):
    import z3
    T = self.T
    tmps = sorted({o[1] for p in self.progs for o in p if o[0] in ('load', 'fetchadd', 'pop')} |
                  {o[1][1] for p in self.progs for o in p if o[0] == 'store' and o[1][0] == 'tmp'})
    obs_names = sorted({o[1] for p in self.progs for o in p if o[0] == 'obs'})
    tl_locs = [l for l in self.locs if l in self.tl]
    sh_locs = [l for l in self.locs if l not in self.tl]
    priv_keys = [('pc',), ('err',), ('nev',)] + [('seq', j) for j in range(self.MAX_EV)] + [('tmp', t) for t in tmps] + \
        [('obs', n) for n in obs_names] + [('tl', l) for l in tl_locs]
    vis = [[pc for pc, o in enumerate(p) if self.visible(o)] for p in self.progs]
    K = K or sum(self.longest_visible_path(p) for p in self.progs)

    def truth(v):
      return z3.And(v != 0, v != NONE)

    def ev(e, st):
      k = e[0]
      if k == 'const':
        return z3.IntVal(e[1])
      if k == 'tmp':
        return st[('tmp', e[1])]
      if k == 'not':
        return z3.If(truth(ev(e[1], st)), z3.IntVal(0), z3.IntVal(1))
      if k == 'eq':
        return z3.If(ev(e[1], st) == ev(e[2], st), z3.IntVal(1), z3.IntVal(0))
      if k == 'ne':
        return z3.If(ev(e[1], st) != ev(e[2], st), z3.IntVal(1), z3.IntVal(0))
      if k == 'and':
        return z3.If(z3.And(truth(ev(e[1], st)), truth(ev(e[2], st))), z3.IntVal(1), z3.IntVal(0))
      if k == 'or':
        return z3.If(z3.Or(truth(ev(e[1], st)), truth(ev(e[2], st))), z3.IntVal(1), z3.IntVal(0))
      if k == 'add':
        return ev(e[1], st) + ev(e[2], st)
      if k == 'sig':
        return ev(e[1], st) + 1000
      if k == 'entry':
        return ev(e[1], st)
      if k == 'tid':
        return st[('tid',)]
      if k == 'objref':
        return ev(e[2], st)
      if k == 'ite':
        return z3.If(truth(ev(e[1], st)), ev(e[2], st), ev(e[3], st))
      raise Unsupported(f'expression node {k}')

    def cells(base):
      return (base[0], base[1], f'{base[2]}#len'), [(base[0], base[1], f'{base[2]}#{j}') for j in range(STACK_DEPTH)]

    def stack_push(get, put, base, val, guard=None):
      ln_loc, slots = cells(base)
      ln = get(ln_loc)
      for j, c in enumerate(slots):
        put(c, z3.If(ln == j, val, get(c)))
      put(ln_loc, ln + 1)

    def stack_pop(get, put, base):
      ln_loc, slots = cells(base)
      ln = get(ln_loc)
      out = z3.IntVal(MISSING)                 # popping an empty (or over-deep) list: MISSING -> IndexError
      for j, c in enumerate(slots):
        out = z3.If(ln == j + 1, get(c), out)
      put(ln_loc, z3.If(ln > 0, ln - 1, ln))
      return out

    def apply_private(o, st):
      """Effect of a thread-private operation on the private state (dict of z3 terms)."""
      kind = o[0]
      if kind == 'load':                         # per-thread location
        st[('tmp', o[1])] = st[('tl', o[2])]
      elif kind == 'store':
        if o[1][0] == 'tmp':
          st[('tmp', o[1][1])] = ev(o[2], st)
        else:
          st[('tl', o[1])] = ev(o[2], st)
      elif kind == 'fetchadd':
        st[('tmp', o[1])] = st[('tl', o[2])]
        st[('tl', o[2])] = st[('tl', o[2])] + 1
      elif kind == 'push':
        stack_push(lambda c: st[('tl', c)], lambda c, v: st.__setitem__(('tl', c), v), o[1], ev(o[2], st))
      elif kind == 'pop':
        st[('tmp', o[1])] = stack_pop(lambda c: st[('tl', c)], lambda c, v: st.__setitem__(('tl', c), v), o[2])
      elif kind == 'event':
        v = ev(o[1], st)
        for j in range(self.MAX_EV):
          st[('seq', j)] = z3.If(st[('nev',)] == j, v, st[('seq', j)])
        st[('nev',)] = st[('nev',)] + 1
      elif kind == 'obs':
        st[('obs', o[1])] = ev(o[2], st)
      elif kind in ('local', 'ret'):
        pass
      else:
        raise Unsupported(f'op {kind}')

    def run_private(prog, pc, st, depth=0):
      """Runs thread-private operations from pc to the next visible operation (or the end); returns the state."""
      L = len(prog)
      if depth > 64:
        raise Unsupported('private segment too deep (loop?)')
      while pc < L and not self.visible(prog[pc]):
        o = prog[pc]
        if o[0] == 'br':
          c = truth(ev(o[1], st))
          a = run_private(prog, o[2], dict(st), depth + 1)
          b = run_private(prog, o[3], dict(st), depth + 1)
          return {k: z3.If(c, a[k], b[k]) for k in a}
        if o[0] == 'jmp':
          if o[1] <= pc:
            raise Unsupported('backward jump')
          pc = o[1]
          continue
        if o[0] == 'fail':
          st[('err',)] = z3.IntVal(1)
          pc = L
          break
        apply_private(o, st)
        pc += 1
      st[('pc',)] = z3.IntVal(pc)
      return st

    s = z3.Solver()
    s.set('timeout', timeout_ms)

    def mk(step):
      st = {}
      for i in range(T):
        for key in priv_keys:
          st[(i, key)] = z3.Int(f'{"_".join(map(str, key))}@{i}@{step}')
      for l in sh_locs:
        st[('sh', l)] = z3.Int(f'sh_{"_".join(map(str, l))}@{step}')
      return st

    S = [mk(k) for k in range(K + 1)]
    sched = [z3.Int(f'sched{k}') for k in range(K)]
    # initial state: every thread has run its private prologue (order irrelevant: it touches nothing shared)
    for i in range(T):
      init = {('pc',): z3.IntVal(0), ('err',): z3.IntVal(0), ('nev',): z3.IntVal(0)}
      for j in range(self.MAX_EV):
        init[('seq', j)] = z3.IntVal(-1)
      for t in tmps:
        init[('tmp', t)] = z3.IntVal(0)
      for n in obs_names:
        init[('obs', n)] = z3.IntVal(-9)
      for l in tl_locs:
        init[('tl', l)] = z3.IntVal(self.locs[l])
      init[('tid',)] = z3.IntVal(TID_BASE + i)
      init = run_private(self.progs[i], 0, init)
      for key in priv_keys:
        s.add(S[0][(i, key)] == z3.simplify(init[key]))
    for l in sh_locs:
      s.add(S[0][('sh', l)] == self.locs[l])

    for k in range(K):
      A, B = S[k], S[k + 1]
      s.add(sched[k] >= 0, sched[k] <= T)
      allfin = z3.And([A[(j, ('pc',))] >= len(self.progs[j]) for j in range(T)])
      s.add((sched[k] == T) == allfin)         # idle iff everybody has finished: only complete schedules are admitted
      for j in range(T):
        s.add(z3.Implies(sched[k] == j, A[(j, ('pc',))] < len(self.progs[j])))
      # source-line granularity: consecutive shared accesses of one thread that sit on the same source line are not
      # separated by a context switch (the property quantifies over interleavings of source lines)
      if k > 0 and self.line_granular:
        P = S[k - 1]
        for j in range(T):
          for v1 in vis[j]:
            for v2 in vis[j]:
              if v2 > v1 and self.progs[j][v1][-1] and self.progs[j][v1][-1] == self.progs[j][v2][-1]:
                s.add(z3.Implies(z3.And(sched[k - 1] == j, P[(j, ('pc',))] == v1, A[(j, ('pc',))] == v2), sched[k] == j))
      shared_new = {l: A[('sh', l)] for l in sh_locs}
      for i in range(T):
        me = sched[k] == i
        prog = self.progs[i]
        s.add(z3.Implies(z3.Not(me), z3.And([B[(i, key)] == A[(i, key)] for key in priv_keys])))
        for v in vis[i]:
          here = z3.And(me, A[(i, ('pc',))] == v)
          o = prog[v]
          st = {key: A[(i, key)] for key in priv_keys}
          st[('tid',)] = z3.IntVal(TID_BASE + i)
          # the visible operation itself
          if o[0] == 'load':
            st[('tmp', o[1])] = A[('sh', o[2])]
          elif o[0] == 'store':
            shared_new[o[1]] = z3.If(here, ev(o[2], st), shared_new[o[1]])
          elif o[0] == 'fetchadd':
            st[('tmp', o[1])] = A[('sh', o[2])]
            shared_new[o[2]] = z3.If(here, A[('sh', o[2])] + 1, shared_new[o[2]])
          elif o[0] == 'push':
            stack_push(lambda c: A[('sh', c)],
                       lambda c, val, here=here: shared_new.__setitem__(c, z3.If(here, val, shared_new[c])), o[1], ev(o[2], st))
          elif o[0] == 'pop':
            st[('tmp', o[1])] = stack_pop(lambda c: A[('sh', c)],
                                          lambda c, val, here=here: shared_new.__setitem__(c, z3.If(here, val, shared_new[c])),
                                          o[2])
          st = run_private(prog, v + 1, st)
          s.add(z3.Implies(here, z3.And([B[(i, key)] == st[key] for key in priv_keys])))
      for l in sh_locs:
        s.add(B[('sh', l)] == shared_new[l])
    # views used by callers: final state accessors
    fin = S[K]
    view = {'err': [fin[(i, ('err',))] for i in range(T)], 'nev': [fin[(i, ('nev',))] for i in range(T)],
            'seq': [[fin[(i, ('seq', j))] for j in range(self.MAX_EV)] for i in range(T)],
            'pc': [fin[(i, ('pc',))] for i in range(T)]}
    for n in obs_names:
      view[('obs', n)] = [fin[(i, ('obs', n))] for i in range(T)]
    for l in tl_locs:
      view[l] = [fin[(i, ('tl', l))] for i in range(T)]
    for l in sh_locs:
      view[l] = [fin[('sh', l)]]
    self.vis = vis
    self.S = S
    return s, view, sched, K


def finalize(ops):
  """Resolve remaining None jump targets to the end, check jump sanity."""
  n = len(ops)
  for o in ops:
    if o[0] == 'br':
      o[2] = n if o[2] is None else o[2]
      o[3] = n if o[3] is None else o[3]
    if o[0] == 'jmp' and o[1] is None:
      o[1] = n
  return ops


def _static(e):
  """Value of an expression over constants only, else None."""
  k = e[0]
  if k == 'const':
    return e[1]
  if k in ('tmp', 'entry', 'global', 'tid', 'ite', 'objref'):
    return None
  vals = [_static(x) for x in e[1:]]
  if any(v is None for v in vals):
    return None
  t = lambda v: v != 0 and v != NONE
  if k == 'not':
    return 0 if t(vals[0]) else 1
  if k == 'eq':
    return 1 if vals[0] == vals[1] else 0
  if k == 'ne':
    return 1 if vals[0] != vals[1] else 0
  if k == 'and':
    return 1 if t(vals[0]) and t(vals[1]) else 0
  if k == 'or':
    return 1 if t(vals[0]) or t(vals[1]) else 0
  if k == 'add':
    return vals[0] + vals[1]
  if k == 'sig':
    return vals[0] + 1000
  return None


def compress(ops):
  """Constant-folds branches, threads jumps, drops unreachable operations and jumps to the next instruction.

  (Purely syntactic: the remaining operations keep their source line numbers.)"""
  ops = [list(o) for o in ops]
  for _ in range(50):
    changed = False
    n = len(ops)
    for o in ops:
      if o[0] == 'br':
        v = _static(o[1])
        if v is not None:
          tgt = o[2] if (v != 0 and v != NONE) else o[3]
          line = o[-1]
          o[:] = ['jmp', tgt, line]
          changed = True

    def final(t, depth=0):
      while t < n and ops[t][0] == 'jmp' and depth < 100:
        t = ops[t][1]
        depth += 1
      return t
    for o in ops:
      if o[0] == 'br':
        a, b = final(o[2]), final(o[3])
        if (a, b) != (o[2], o[3]):
          o[2], o[3] = a, b
          changed = True
      if o[0] == 'jmp':
        a = final(o[1])
        if a != o[1]:
          o[1] = a
          changed = True
    reach, stack = set(), [0]
    while stack:
      i = stack.pop()
      if i in reach or i >= n:
        continue
      reach.add(i)
      o = ops[i]
      if o[0] == 'br':
        stack += [o[2], o[3]]
      elif o[0] == 'jmp':
        stack.append(o[1])
      elif o[0] == 'fail':
        pass
      else:
        stack.append(i + 1)
    keep = [(i in reach) and not (o[0] == 'jmp' and o[1] == i + 1) for i, o in enumerate(ops)]
    if not all(keep):
      changed = True
    remap, m = {}, 0
    for i, k in enumerate(keep):
      remap[i] = m
      m += 1 if k else 0
    remap[n] = m
    for i in range(n - 1, -1, -1):          # a dropped op maps to the next kept one
      if not keep[i]:
        remap[i] = remap[i + 1]
    out = []
    for i, o in enumerate(ops):
      if not keep[i]:
        continue
      o = list(o)
      if o[0] == 'br':
        o[2], o[3] = remap[min(o[2], n)], remap[min(o[3], n)]
      if o[0] == 'jmp':
        o[1] = remap[min(o[1], n)]
      out.append(o)
    ops = out
    if not changed:
      break
  return ops


def run_alone(prog, locs, tl):
  """The observations of one program running alone, computed with the same model (a 1-thread BMC)."""
  import z3
  sysm = System([prog], locs, tl)
  s, fin, sched, K = sysm.bmc()
  if str(s.check()) != 'sat':
    raise Unsupported('single-thread run has no model')
  m = s.model()
  out = {'err': m.eval(fin['err'][0]).as_long(), 'nev': m.eval(fin['nev'][0]).as_long()}
  for key in fin:
    if isinstance(key, tuple) and key[0] == 'obs':
      out[key[1]] = m.eval(fin[key][0]).as_long()
  for loc in locs:
    if loc in tl:
      out['final:' + '.'.join(map(str, loc))] = m.eval(fin[loc][0]).as_long()
  return out
