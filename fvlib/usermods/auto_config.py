"""A user module whose leaf name equals that of Fiddle's auto_config module (import-name clashes in generated code)."""


def user_fn(x=None, y=None, *, z=None):
  return ('user_fn', x, y, z)
