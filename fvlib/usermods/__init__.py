"""User modules with unlucky names (harness C12)."""
