"""Engine B2: pure-Python transliteration of CPython's raw_unicode_escape codec, pluggable into CrossHair.

CrossHair looks codecs up as codecs.lookup('crosshair_' + name) and ships models for utf-8, latin-1 and ascii only;
at any other codec it *realises* the symbolic bytes / str (measured: no counterexample in 120 s).  Registering this
stub lets Fiddle's real flatten / unflatten functions for `bytes` run on symbolic bytes whatever codec name they use
today.  `validate()` compares the stub with the C codec exhaustively over a small alphabet on every run.
"""
from __future__ import annotations

import codecs
import itertools
from typing import List

_INSTALLED = [False]


def py_decode(byts) -> str:
  """_PyUnicode_DecodeRawUnicodeEscapeStateful (final=True)."""
  out: List[str] = []
  i, n = 0, len(byts)
  while i < n:
    c = byts[i]
    i += 1
    if c != 92 or i >= n:
      out.append(chr(c))
      continue
    c = byts[i]
    i += 1
    if c == 117:
      count = 4
    elif c == 85:
      count = 8
    else:
      out.append('\\')
      out.append(chr(c))
      continue
    ch = 0
    for _ in range(count):
      if i >= n:
        raise UnicodeDecodeError('rawunicodeescape', b'', 0, 1, 'truncated escape')
      d = byts[i]
      if 48 <= d <= 57:
        v = d - 48
      elif 97 <= d <= 102:
        v = d - 87
      elif 65 <= d <= 70:
        v = d - 55
      else:
        raise UnicodeDecodeError('rawunicodeescape', b'', 0, 1, 'truncated escape')
      ch = ch * 16 + v
      i += 1
    if ch > 0x10FFFF:
      raise UnicodeDecodeError('rawunicodeescape', b'', 0, 1, 'out of range')
    out.append(chr(ch))
  return ''.join(out)


_HEX = '0123456789abcdef'


def py_encode(s) -> List[int]:
  out: List[int] = []
  for chx in s:
    cp = ord(chx)
    if cp < 256:
      out.append(cp)
    elif cp < 0x10000:
      out += [92, 117] + [ord(_HEX[(cp >> sh) & 15]) for sh in (12, 8, 4, 0)]
    else:
      out += [92, 85] + [ord(_HEX[(cp >> sh) & 15]) for sh in (28, 24, 20, 16, 12, 8, 4, 0)]
  return out


def install_into_crosshair():
  if _INSTALLED[0]:
    return
  from crosshair.libimpl.builtinslib import SymbolicBytes
  from crosshair.libimpl.encodings._encutil import MidChunkError, StemEncoder

  class RUE(StemEncoder):
    encoding_name = 'raw_unicode_escape'

    @classmethod
    def _encode_chunk(cls, string, start):
      return (SymbolicBytes(py_encode(string[start:])), len(string), None)

    @classmethod
    def _decode_chunk(cls, byts, start):
      try:
        return (py_decode(byts[start:]), len(byts), None)
      except UnicodeDecodeError:
        return ('', start, MidChunkError('truncated escape'))

  entry = RUE.getregentry()

  def search(name):
    if name in ('crosshair_raw_unicode_escape', 'crosshair_raw-unicode-escape'):
      return entry
    return None

  codecs.register(search)
  _INSTALLED[0] = True


def validate(max_len=5, alphabet=b'\\uU041Af\xe9'):
  """Differential check of the stub against the C codec; returns (strings checked, mismatches)."""
  n = bad = 0
  for ln in range(max_len + 1):
    for tup in itertools.product(alphabet, repeat=ln):
      b = bytes(tup)
      n += 1
      try:
        want = ('ok', b.decode('raw_unicode_escape'))
      except UnicodeDecodeError:
        want = ('err',)
      try:
        got = ('ok', py_decode(b))
      except UnicodeDecodeError:
        got = ('err',)
      if want != got:
        bad += 1
        continue
      if want[0] == 'ok' and bytes(py_encode(want[1])) != want[1].encode('raw_unicode_escape'):
        bad += 1
  for s in ['', 'a\u1234', '\U0001f600z', '\xff\u0100', '\\u0041']:
    n += 1
    if bytes(py_encode(s)) != s.encode('raw_unicode_escape'):
      bad += 1
  return n, bad
