"""JSON data model without the text stage (DESIGN C09 1b).

CrossHair's symbolic `json` model does not finish one path for a 1-character symbolic string
(measured), and the C accelerator realises everything.  `roundtrip` therefore runs Fiddle's real
`Serialization` and `Deserialization` classes and replaces only `json.dumps` / `json.loads` by
`jsonify`, which applies what the text stage does to the *data*: tuples become lists, dict keys
become strings, str/int/float/bool/None are unchanged.  `validate` compares the stub with the real
text stage on a concrete document (called from smoke runs and from C09's text-level obligation).
"""
from __future__ import annotations

import json

from fiddle._src.experimental import serialization


def _jkey(k):
  if isinstance(k, str):
    return k
  if k is True:
    return 'true'
  if k is False:
    return 'false'
  if k is None:
    return 'null'
  if isinstance(k, (int, float)):
    return json.dumps(k) if isinstance(k, float) else str(k)
  raise TypeError(f'keys must be str, int, float, bool or None, not {type(k).__name__}')


def jsonify(x):
  if isinstance(x, dict):
    return {_jkey(k): jsonify(v) for k, v in x.items()}
  if isinstance(x, (list, tuple)):
    return [jsonify(v) for v in x]
  if x is None or isinstance(x, (str, int, float, bool)):
    return x
  raise TypeError(f'Object of type {type(x).__name__} is not JSON serializable')


def roundtrip(value, pyref_policy=None):
  doc = serialization.Serialization(value, pyref_policy).result
  return serialization.Deserialization(jsonify(doc), pyref_policy).result


def validate(value, pyref_policy=None):
  """True iff the stub and the real text stage agree on this (concrete) value's document."""
  doc = serialization.Serialization(value, pyref_policy).result
  # compared as text, since NaN != NaN as a value
  return json.dumps(json.loads(json.dumps(doc))) == json.dumps(jsonify(doc))
