"""A tag whose short name equals that of harness.c14.T1 (Fiddle refuses two tags of one name in one module)."""
import fiddle as fdl


class T1(fdl.Tag):
  """an unrelated tag with the same short name as harness.c14.T1"""
