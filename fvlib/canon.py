"""Canonical forms: the oracle's eyes (DESIGN 2.3).  Independent of `daglish`.

canon(x): nested tuples describing a configuration or built object graph up to isomorphism
including aliasing: every *mutable* object (Buildable, list, dict, set, Rec, other instances) is
numbered at first visit; immutable leaves and tuples of immutable leaves are compared by value.
History is excluded.  Only the documented dunder attributes of Buildable are read.
"""
from __future__ import annotations

import collections
import enum
import functools
import types

from fiddle._src import config as config_lib
from fiddle._src import tag_type

from fvlib import sigs

_IMMUT_LEAF = (int, float, complex, str, bytes, bool, type(None), type(Ellipsis), range, slice,
               frozenset, type, types.FunctionType, types.BuiltinFunctionType, types.MethodType,
               enum.Enum)


def is_buildable(x):
  return isinstance(x, config_lib.Buildable)


def is_immutable_value(x):
  """True for values Python may intern / that carry no identity of interest."""
  if isinstance(x, tuple):
    return all(is_immutable_value(v) for v in x)
  if is_buildable(x) or isinstance(x, (list, dict, set, sigs.Rec)):
    return False
  if isinstance(x, _IMMUT_LEAF) or x is config_lib.NO_VALUE:
    return True
  if isinstance(x, functools.partial):
    return False
  return not hasattr(x, '__dict__') or isinstance(x, type)


def _kkey(k):
  return (type(k).__name__, k if type(k) in (int, str) else repr(k))


def _leaf(x):
  if x is config_lib.NO_VALUE:
    return ('NO_VALUE',)
  t = type(x)
  if t is float:
    return ('leaf', 'float', repr(x))
  if t is complex:
    return ('leaf', 'complex', repr(x))
  if isinstance(x, tuple):
    return ('tuple', type(x).__name__, tuple(_leaf(v) for v in x))
  if isinstance(x, frozenset):
    return ('frozenset', tuple(sorted(repr(v) for v in x)))
  if isinstance(x, (type, types.FunctionType, types.BuiltinFunctionType, types.MethodType)):
    return ('obj', x)
  if isinstance(x, (slice, range)):
    # (no repr: formatting a symbolic int forks once per digit count)
    return ('leaf', t.__name__, (_leaf(x.start), _leaf(x.stop), _leaf(x.step)))
  return ('leaf', t.__name__, x)


def canon(x, memo=None):
  memo = {} if memo is None else memo
  if is_immutable_value(x):
    return _leaf(x)
  if id(x) in memo:
    return ('ref', memo[id(x)][0])
  n = len(memo)
  memo[id(x)] = (n, x)  # keep x alive: ids stay unique during the walk
  if is_buildable(x):
    args = x.__arguments__
    tags = x.__argument_tags__
    return ('buildable', n, type(x).__name__, ('obj', x.__fn_or_cls__),
            tuple((k, canon(args[k], memo)) for k in sorted(args, key=_kkey)),
            tuple((k, tuple(sorted(t.name if hasattr(t, 'name') else repr(t) for t in tags[k])))
                  for k in sorted(tags, key=_kkey) if tags[k]))
  if isinstance(x, sigs.Rec):
    return ('rec', n, x.name, tuple(canon(v, memo) for v in x.pos), tuple(canon(v, memo) for v in x.var),
            tuple(canon(v, memo) for v in x.ko), tuple((k, canon(v, memo)) for k, v in x.kw))
  if isinstance(x, dict):
    extra = ()
    if isinstance(x, collections.defaultdict):
      extra = (('default_factory', ('obj', x.default_factory)),)
    return ('dict', n, type(x).__name__, extra,
            tuple((k if type(k) in (int, str) else _kkey(k), canon(x[k], memo)) for k in sorted(x, key=_kkey)))
  if isinstance(x, list):
    return ('list', n, tuple(canon(v, memo) for v in x))
  if isinstance(x, tuple):
    return ('tuple', n, type(x).__name__, tuple(canon(v, memo) for v in x))
  if isinstance(x, set):
    return ('set', n, tuple(sorted(repr(v) for v in x)))
  if isinstance(x, functools.partial):
    # Under CrossHair functools.partial(f) stores a tracing wrapper whose __wrapped__ is f.
    return ('partial', n, ('obj', getattr(x.func, '__wrapped__', x.func)), tuple(canon(v, memo) for v in x.args),
            tuple((k, canon(v, memo)) for k, v in sorted(x.keywords.items())))
  d = getattr(x, '__dict__', None)
  if d is not None:
    return ('instance', n, type(x).__name__, tuple((k, canon(d[k], memo)) for k in sorted(d)))
  return ('opaque', n, type(x).__name__)


def mutable_ids(x, acc=None, include_internal=True):
  """ids of every mutable object reachable from x (Buildables, containers and - for Buildables -
  their argument dict, tag dict, tag sets and history lists)."""
  acc = {} if acc is None else acc
  if is_immutable_value(x) or id(x) in acc:
    return acc
  acc[id(x)] = x
  if is_buildable(x):
    if include_internal:
      acc[id(x.__arguments__)] = x.__arguments__
      acc[id(x.__argument_tags__)] = x.__argument_tags__
      for s in x.__argument_tags__.values():
        acc[id(s)] = s
      acc[id(x.__argument_history__)] = x.__argument_history__
      for l in x.__argument_history__.values():
        acc[id(l)] = l
    for v in x.__arguments__.values():
      mutable_ids(v, acc, include_internal)
  elif isinstance(x, dict):
    for v in x.values():
      mutable_ids(v, acc, include_internal)
  elif isinstance(x, (list, tuple, set)):
    for v in x:
      mutable_ids(v, acc, include_internal)
  elif isinstance(x, sigs.Rec):
    for v in x.pos + x.var + x.ko + tuple(v for _, v in x.kw):
      mutable_ids(v, acc, include_internal)
  elif isinstance(x, functools.partial):
    for v in tuple(x.args) + tuple(x.keywords.values()):
      mutable_ids(v, acc, include_internal)
  elif hasattr(x, '__dict__') and not isinstance(x, type):
    for v in vars(x).values():
      mutable_ids(v, acc, include_internal)
  return acc


def buildables(x):
  return [v for v in mutable_ids(x, include_internal=False).values() if is_buildable(v)]


def _pos_keys(cfg):
  """Argument keys in the order Fiddle documents for traversal (signature order)."""
  return list(config_lib.ordered_arguments(cfg).keys())


def reach_paths(x, prefix='', out=None, seen_stack=()):
  """All (path string, object) pairs, each path once (un-memoized), independent of daglish."""
  out = [] if out is None else out
  out.append((prefix, x))
  if id(x) in seen_stack:
    raise RecursionError('cycle')
  st = seen_stack + (id(x),)
  if is_buildable(x):
    for k in _pos_keys(x):
      v = x.__arguments__[k]
      reach_paths(v, prefix + (f'.{k}' if isinstance(k, str) else f'[{k}]'), out, st)
  elif isinstance(x, dict):
    for k, v in x.items():
      reach_paths(v, prefix + f'[{k!r}]', out, st)
  elif isinstance(x, tuple) and hasattr(x, '_fields'):
    for f, v in zip(x._fields, x):
      reach_paths(v, prefix + f'.{f}', out, st)
  elif isinstance(x, (list, tuple)):
    for i, v in enumerate(x):
      reach_paths(v, prefix + f'[{i}]', out, st)
  elif type(x).__name__ == 'Table' and hasattr(x, 'd'):
    for i, kv in enumerate(x.d.items()):   # the family's node type with temporary (key, value) children
      reach_paths(kv, prefix + f'[{i}]', out, st)
  elif type(x).__name__ == 'Box' and hasattr(x, 'items'):
    for i, v in enumerate(x.items):      # the family's user-registered node type
      reach_paths(v, prefix + f'[{i}]', out, st)
  return out


def canon_hist(cfg):
  """Argument history as {key: [(kind, value-or-tags)]} without locations / sequence ids."""
  out = {}
  for k, entries in cfg.__argument_history__.items():
    out[k] = [(e.kind.name, e.new_value) for e in entries]
  return out
