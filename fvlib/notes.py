"""Structural fingerprints recorded by harnesses (concrete values only).

`note(...)` is called by a harness just before its final assertion with the *structural*
decisions of the current path (already concrete: dict keys, types, exception class names).
The driver counts distinct notes per obligation -> evidence.coverage.distinct_nontrivial.
"""
_NOTES = set()

try:
  from crosshair import NoTracing as _NoTracing
except Exception:  # replay interpreter may run without crosshair
  _NoTracing = None


def _plain(x):
  # Only ever called on values the harness guarantees to be concrete.
  return repr(x)


def note(*parts):
  if _NoTracing is None:
    _NOTES.add(_plain(parts))
    return
  with _NoTracing():
    try:
      _NOTES.add(_plain(parts))
    except BaseException:  # never let bookkeeping disturb a path
      pass


def reset():
  _NOTES.clear()


def snapshot():
  return set(_NOTES)


def skel(x, depth=0):
  """Type skeleton of a value (leaves -> type name). Safe on symbolic leaves under tracing."""
  if depth > 6:
    return '...'
  if isinstance(x, dict):
    return ('dict', tuple((k if isinstance(k, (int, str)) and type(k) in (int, str) else type(k).__name__, skel(v, depth + 1)) for k, v in x.items()))
  if isinstance(x, (list, tuple)):
    return (type(x).__name__, tuple(skel(v, depth + 1) for v in x))
  return type(x).__name__
