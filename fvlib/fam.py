"""Configuration family FAM (DESIGN 2.2): small-integer vectors -> live Fiddle configurations.

Nodes n0..n(N-1) in topological order (root = last).  Each node has two child slots x, y; a slot
selects an earlier node (target >= 0) or a leaf (target < 0) and wraps it in a container kind.
The components of the vector are the harness's symbolic parameters, so the solver enumerates the
family and certifies it has been covered.
"""
from __future__ import annotations

import collections

import fiddle as fdl
from fiddle import daglish

from fvlib import sigs

Rec = sigs.Rec


def _mk_g(i):
  def g(x=None, y=None, *, z=None):
    return Rec(f'g{i}', (x, y), (), (z,), {})
  g.__name__ = g.__qualname__ = f'g{i}'
  g.__module__ = __name__
  return g


G = [_mk_g(i) for i in range(6)]
g0, g1, g2, g3, g4, g5 = G


class A:
  def __init__(self, x=None, y=None, z=None):
    self.x, self.y, self.z = x, y, z
    sigs.LOG.append((type(self).__name__, id(self)))


class B(A):
  pass


class C(B):
  pass


def fp(a=None, b=2, /, c=3, *args, k=None):
  return Rec('fp', (a, b, c), args, (k,), {})


def fkw(x=None, y=None, **kw):
  return Rec('fkw', (x, y), (), (), kw)


NT = collections.namedtuple('NT', ['p', 'q'])


class Box:
  """User-registered node type whose flatten allocates fresh temporaries on every call."""

  def __init__(self, items):
    self.items = list(items)

  def __getitem__(self, i):
    return self.items[i]


daglish.register_node_traverser(
    Box,
    flatten_fn=lambda b: (tuple([list(b.items)][0]), None),
    unflatten_fn=lambda values, _: Box(values),
    path_elements_fn=lambda b: tuple(daglish.Index(i) for i in range(len(b.items))),
)

class Table:
  """User-registered node type whose flatten yields *temporary tuples* (key, value) that die right after use."""

  def __init__(self, d):
    self.d = dict(d)

  def __getitem__(self, i):
    return tuple(self.d.items())[i]


daglish.register_node_traverser(
    Table,
    flatten_fn=lambda t: (tuple(t.d.items()), None),
    unflatten_fn=lambda values, _: Table(dict(values)),
    path_elements_fn=lambda t: tuple(daglish.Index(i) for i in range(len(t.d))),
)

WRAP_NAMES = ['none', 'list', 'tuple', 'dict', 'namedtuple', 'list_in_dict']


def wrap(kind, v):
  if kind == 0:
    return v
  if kind == 1:
    return [v, 0]
  if kind == 2:
    return (v,)
  if kind == 3:
    return {'k': v}
  if kind == 4:
    return NT(v, 1)
  return {'d': [v]}


def unwrap_paths(kind):
  """Path suffix (daglish.path_str syntax) from the slot to the wrapped value."""
  return ['', '[0]', '[0]', "['k']", '.p', "['d'][0]"][kind]


def make(n, targets, wraps, partial=None, callables=None, leaves=None, share=False):
  """targets[i] = (tx, ty), wraps[i] = (wx, wy) for node i; returns (root, nodes).

  A target >= i (or < 0) means "leaf".  With share=True two slots anywhere in the graph with the same
  (target, wrapper kind != 0) receive the *same container object*.
  """
  partial = partial or [False] * n
  callables = callables or G[:n]
  nodes = []
  cache = {}
  for i in range(n):
    ctor = fdl.Partial if partial[i] else fdl.Config
    node = ctor(callables[i])
    for s, slot in enumerate(('x', 'y')):
      t = targets[i][s]
      w = wraps[i][s]
      if 0 <= t < i:
        if share and w:
          if (t, w) not in cache:
            cache[(t, w)] = wrap(w, nodes[t])
          val = cache[(t, w)]
        else:
          val = wrap(w, nodes[t])
      else:
        leaf = leaves[i][s] if leaves is not None else 10 * i + s
        val = wrap(w, leaf)
      setattr(node, slot, val)
    nodes.append(node)
  return nodes[-1], nodes


def reachable(n, targets):
  """Indices reachable from the root n-1 (pure function of the selector vector)."""
  seen = set()
  stack = [n - 1]
  while stack:
    i = stack.pop()
    if i in seen:
      continue
    seen.add(i)
    for t in targets[i]:
      if 0 <= t < i:
        stack.append(t)
  return seen
