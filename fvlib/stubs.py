"""Stubs for formatting code (listed in every claim that uses them).

Fiddle's diagnostics format argument values (`repr(arg)` in building._format_arg, `{self!r}` in the
AttributeError messages of Buildable).  Converting a *symbolic* int to text costs CrossHair one path
per decimal digit count, without bound.  Where formatting is not the subject of the property the
harness replaces these two formatters by constants (guidance: "formatting and logging get empty
bodies unless formatting is the subject").  C05 (whose subject is the diagnostic) does not use them.
"""
from fiddle._src import building as _building
from fiddle._src import config as _config

_ORIG = {}


def stub_build_message_formatting():
  """building._format_arg(arg) -> '<arg>' (the argument values inside the Fiddle-context message)."""
  if 'format_arg' not in _ORIG:
    _ORIG['format_arg'] = _building._format_arg
    _building._format_arg = lambda arg: '<arg>'


def stub_buildable_repr():
  """Buildable.__repr__ -> constant (used inside Fiddle's own error messages)."""
  if 'repr' not in _ORIG:
    _ORIG['repr'] = _config.Buildable.__repr__
    _config.Buildable.__repr__ = lambda self: f'<{type(self).__name__} (repr stubbed)>'


def restore():
  if 'format_arg' in _ORIG:
    _building._format_arg = _ORIG.pop('format_arg')
  if 'repr' in _ORIG:
    _config.Buildable.__repr__ = _ORIG.pop('repr')
