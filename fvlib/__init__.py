"""Shared harness library: signature catalogue, canonical forms, reference models, families."""
