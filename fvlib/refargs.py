"""RefArgs: plain-Python reference model of a bound-argument list (DESIGN Appendix A).

Used by C01 / C03 / C16.  Knows nothing about Fiddle except the NO_VALUE sentinel that
`cfg[:]` documents for unset cells.
"""
from __future__ import annotations

import fiddle as fdl

from fvlib.sigs import Shape

UNSET = object()


class Pairs:
  """Insertion-ordered name -> value map kept as a plain list of pairs.

  Deliberately not a dict: under CrossHair `dict(d)` of a model-side dict became a proxy mapping
  whose update of an existing key moved it to the end (measured), which is not dict semantics."""

  def __init__(self, items=()):
    self._items = [list(kv) for kv in items]

  def copy(self):
    return Pairs(self._items)

  def __contains__(self, k):
    return any(kk == k for kk, _ in self._items)

  def __getitem__(self, k):
    for kk, v in self._items:
      if kk == k:
        return v
    raise KeyError(k)

  def __setitem__(self, k, v):
    for kv in self._items:
      if kv[0] == k:
        kv[1] = v
        return
    self._items.append([k, v])

  def __delitem__(self, k):
    for i, kv in enumerate(self._items):
      if kv[0] == k:
        del self._items[i]
        return
    raise KeyError(k)

  def items(self):
    return [tuple(kv) for kv in self._items]

  def __iter__(self):
    return iter([k for k, _ in self._items])

  def __len__(self):
    return len(self._items)


class Reject(Exception):
  """The model says this edit is invalid: Fiddle must raise and change nothing."""


class RefArgs:

  def __init__(self, shape: Shape):
    self.shape = shape
    p, k, va, ko, vk, d, dk = shape
    self.F = p + k
    self.pos_names = [f'p{i}' for i in range(p)] + [f'k{i}' for i in range(k)]
    self.defaults = [100 + i if i >= self.F - d else UNSET for i in range(self.F)]
    self.fixed = [UNSET] * self.F
    self.var = []
    self.ko = UNSET            # value of o0
    self.extra = Pairs()       # **kw names in insertion order

  def copy(self):
    r = RefArgs(self.shape)
    r.fixed, r.var, r.ko, r.extra = list(self.fixed), list(self.var), self.ko, self.extra.copy()
    return r

  def state(self):
    return (tuple(self.fixed), tuple(self.var), self.ko, tuple(self.extra.items()))

  # ------------------------------------------------------------------ positional view
  def cell(self, i):
    if self.fixed[i] is not UNSET:
      return self.fixed[i]
    if self.defaults[i] is not UNSET:
      return self.defaults[i]
    return fdl.NO_VALUE

  def view(self):
    return [self.cell(i) for i in range(self.F)] + list(self.var)

  def n(self):
    return self.F + len(self.var)

  def _norm(self, i):
    n = self.n()
    if i < 0:
      i += n
    if not 0 <= i < n:
      raise Reject('index out of range')
    return i

  def get_index(self, i):
    return self.view()[self._norm(i)]

  def set_index(self, i, v):
    i = self._norm(i)
    if i < self.F:
      self.fixed[i] = v
    else:
      self.var[i - self.F] = v

  def del_index(self, i):
    i = self._norm(i)
    if i < self.F:
      self.fixed[i] = UNSET
    else:
      del self.var[i - self.F]

  def get_slice(self, s):
    return self.view()[s]

  def set_slice(self, s, vals):
    vals = list(vals)
    n = self.n()
    idx = range(*s.indices(n))
    touches_prefix = ((len(idx) > 0 and min(idx) < self.F)
                      or (len(idx) == 0 and idx.start < self.F)
                      or not self.shape.va)
    if touches_prefix:
      if len(vals) != len(idx):
        raise Reject('length-changing slice over the fixed prefix')
      for i, v in zip(idx, vals):
        if i < self.F:
          self.fixed[i] = v
        else:
          self.var[i - self.F] = v
    else:
      full = [None] * self.F + self.var
      try:
        full[s] = vals
      except ValueError as e:
        raise Reject(str(e)) from None
      self.var = full[self.F:]

  def del_slice(self, s):
    idx = set(range(*s.indices(self.n())))
    for i in idx:
      if i < self.F:
        self.fixed[i] = UNSET
    self.var = [v for j, v in enumerate(self.var) if self.F + j not in idx]

  # ------------------------------------------------------------------ names
  def _kind(self, name):
    p, k = self.shape.p, self.shape.k
    if name in self.pos_names:
      return 'posonly' if self.pos_names.index(name) < p else 'poskw'
    if name == 'args' and self.shape.va:
      return 'varpos'
    if name == 'o0' and self.shape.ko:
      return 'kwonly'
    if name == 'kw' and self.shape.vk:
      return 'varkw'
    return 'other'

  def get_name(self, name):
    kind = self._kind(name)
    if kind in ('posonly', 'varpos'):
      raise Reject('positional-only / variadic parameter addressed by name')
    if kind == 'poskw':
      i = self.pos_names.index(name)
      if self.fixed[i] is not UNSET:
        return self.fixed[i]
      if self.defaults[i] is not UNSET:
        return self.defaults[i]
      raise Reject('unset, no default')
    if kind == 'kwonly':
      if self.ko is not UNSET:
        return self.ko
      if self.shape.dk:
        return 200
      raise Reject('unset, no default')
    if name in self.extra:
      return self.extra[name]
    raise Reject('unknown / unset name')

  def set_name(self, name, v):
    kind = self._kind(name)
    if kind in ('posonly', 'varpos'):
      raise Reject('positional-only / variadic parameter addressed by name')
    if kind == 'poskw':
      self.fixed[self.pos_names.index(name)] = v
    elif kind == 'kwonly':
      self.ko = v
    elif self.shape.vk:
      self.extra[name] = v
    else:
      raise Reject('unknown name without **kwargs')

  def del_name(self, name):
    kind = self._kind(name)
    if kind == 'poskw':
      i = self.pos_names.index(name)
      if self.fixed[i] is UNSET:
        raise Reject('not set')
      self.fixed[i] = UNSET
    elif kind == 'kwonly':
      if self.ko is UNSET:
        raise Reject('not set')
      self.ko = UNSET
    elif name in self.extra:
      del self.extra[name]
    else:
      raise Reject('not set')

  # ------------------------------------------------------------------ reports
  def ordered_arguments(self, include_var_keyword=True, include_defaults=False, include_unset=False,
                        include_positional=True, include_equal_to_default=True):
    if not include_equal_to_default and include_defaults:
      raise Reject('mutually exclusive flags')
    out = {}
    p = self.shape.p

    def consider(key, value, default):
      # default is UNSET when the parameter has none
      if value is UNSET:
        if default is not UNSET:
          if include_defaults:
            value = default
        elif include_unset:
          value = fdl.NO_VALUE
      if value is not UNSET:
        if include_equal_to_default or default is UNSET or value != default:
          out[key] = value

    for i in range(self.F):
      consider(i if i < p else self.pos_names[i], self.fixed[i], self.defaults[i])
    for j, v in enumerate(self.var):
      out[self.F + j] = v
    if self.shape.ko:
      consider('o0', self.ko, 200 if self.shape.dk else UNSET)
    if include_var_keyword:
      for k, v in self.extra.items():
        out[k] = v
    if not include_positional:
      out = {k: v for k, v in out.items() if isinstance(k, str)}
    return out

  def dir_names(self):
    names = set(self.pos_names[self.shape.p:])
    if self.shape.ko:
      names.add('o0')
    names.update(list(self.extra))
    return names

  def keywords(self):
    """Keyword part of what is configured: {name: value} for set poskw, kwonly, extras."""
    out = {}
    for i in range(self.shape.p, self.F):
      if self.fixed[i] is not UNSET:
        out[self.pos_names[i]] = self.fixed[i]
    if self.ko is not UNSET:
      out['o0'] = self.ko
    for k, v in self.extra.items():
      out[k] = v
    return out
