"""Signature catalogue SIGS: recording callables over every parameter-kind combination.

shape = (p, k, va, ko, vk, d, dk): p positional-only (0..2), k positional-or-keyword (0..2),
va has *args, ko keyword-only (0..1), vk has **kw, d trailing positional params with defaults
(0..p+k), dk keyword-only default yes/no.  Defaults are distinct ints (100+i, 200).
Every callable records its call in LOG and returns a Rec whose equality is its bound arguments.
"""
from __future__ import annotations

import collections
import dataclasses
import functools
import itertools
from typing import Any, NamedTuple

LOG = []          # (name, serial) per invocation, in order
_serial = [0]


class Rec:
  """What a catalogue callable received. Equality by value; identity observable via `serial`."""
  __slots__ = ('name', 'pos', 'var', 'ko', 'kw', 'serial')

  def __init__(self, name, pos, var, ko, kw):
    self.name, self.pos, self.var, self.ko = name, tuple(pos), tuple(var), tuple(ko)
    self.kw = tuple(sorted(kw.items(), key=lambda kv: kv[0]))
    _serial[0] += 1
    self.serial = _serial[0]
    LOG.append((name, self.serial))

  def key(self):
    return (self.name, self.pos, self.var, self.ko, self.kw)

  def __eq__(self, other):
    return isinstance(other, Rec) and self.key() == other.key()

  def __ne__(self, other):
    return not self.__eq__(other)

  __hash__ = None

  def __repr__(self):
    return f'Rec{self.key()!r}'


def reset_log():
  del LOG[:]


class Shape(NamedTuple):
  p: int
  k: int
  va: int
  ko: int
  vk: int
  d: int
  dk: int


def _source(shape: Shape, name: str) -> str:
  p, k, va, ko, vk, d, dk = shape
  pos = [f'p{i}' for i in range(p)] + [f'k{i}' for i in range(k)]
  parts = []
  for i, n in enumerate(pos):
    parts.append(n + (f'={100 + i}' if i >= len(pos) - d else ''))
    if i == p - 1:
      parts.append('/')
  if va:
    parts.append('*args')
  elif ko:
    parts.append('*')
  if ko:
    parts.append('o0=200' if dk else 'o0')
  if vk:
    parts.append('**kw')
  tup = '(' + ''.join(n + ', ' for n in pos) + ')'
  return (f"def {name}({', '.join(parts)}):\n"
          f"  return Rec('{name}', {tup}, {'args' if va else '()'}, "
          f"{'(o0,)' if ko else '()'}, {'kw' if vk else '{}'})\n")


SIGS = []       # list of (fn, Shape)
BY_SHAPE = {}


def _build():
  ns = {'Rec': Rec}
  for p, k, va, ko, vk in itertools.product((0, 1, 2), (0, 1, 2), (0, 1), (0, 1), (0, 1)):
    for d in range(0, p + k + 1):
      for dk in ((0, 1) if ko else (0,)):
        shape = Shape(p, k, va, ko, vk, d, dk)
        name = f'fn_{p}{k}{va}{ko}{vk}{d}{dk}'
        exec(_source(shape, name), ns)  # pylint: disable=exec-used
        fn = ns[name]
        fn.__module__ = __name__
        fn.__qualname__ = name
        globals()[name] = fn
        BY_SHAPE[shape] = len(SIGS)
        SIGS.append((fn, shape))


_build()


def sig_index(p, k, va, ko, vk, d, dk=0):
  return BY_SHAPE[Shape(p, k, va, ko, vk, d, dk)]


def source_of(i):
  fn, shape = SIGS[i]
  return _source(shape, fn.__name__).split('\n')[0]


# ----------------------------------------------------------------- special callables (C01 quantifier)

class ClsInit:
  def __init__(self, a, b=11, *, c=12):
    self.rec = Rec('ClsInit', (a, b), (), (c,), {})

  def __eq__(self, other):
    return type(other) is type(self) and self.rec == other.rec
  __hash__ = None


class SubA(ClsInit):
  pass


class SubB(SubA):
  def __init__(self, a, /, z=13, *rest, **kw):
    super().__init__(a)
    self.rec = Rec('SubB', (a, z), rest, (), kw)


@dataclasses.dataclass
class DC:
  x: int
  y: int = 21
  z: list = dataclasses.field(default_factory=list)

  def __post_init__(self):
    Rec('DC', (self.x, self.y), (), (), {})


class WithClassmethod:
  @classmethod
  def make(cls, a, b=31, /, *args, k=32):
    return Rec('WithClassmethod.make', (a, b), args, (k,), {})


def _for_partial(a, b, c=41, *, k=42):
  return Rec('_for_partial', (a, b, c), (), (k,), {})


PARTIAL_OBJ = functools.partial(_for_partial, 7, k=43)


class CallableInstance:
  def __call__(self, a, /, b=51, *args, **kw):
    return Rec('CallableInstance', (a, b), args, (), kw)


CALLABLE_INSTANCE = CallableInstance()


class NT(NamedTuple):
  p: Any
  q: Any = 61


PlainNT = collections.namedtuple('PlainNT', ['p', 'q'])
