"""C18 - printed paths are valid override paths; flag directives apply in order."""
from __future__ import annotations

import ast
import copy
import inspect
import sys
import time

import fiddle as fdl
from fiddle._src import daglish
from fiddle import printing
from fiddle._src import daglish_extensions
from fiddle._src.absl_flags import flags as fdl_flags
from fiddle._src.absl_flags import utils as flag_utils

from fvlib import fam, sigs
from fvlib import stubs
from fvlib.canon import canon
from fvlib.notes import note
from fvrun.spec import Cube, DirectResult, Obligation

PROPERTY = 'C18'
EXPLANATION = (
    'two engines. B1 (direct SMT, z3 string / regex theory): the path-element regex daglish_extensions._PATH_PART, the '
    'directive regex flags._COMMAND_RE and CallExpression._PARSE_RE are read from the imported modules, parsed with '
    're._parser and translated into z3 regular expressions; the printer templates are read from the AST of the `code` '
    'properties of daglish.Attr / Index / Key; queries (negation unsat = holds for all strings, unbounded length): '
    'printed element is parsable, no other prefix of a printed path is a parsable element (the left-to-right split is '
    'unique), "=" cannot occur in a printed path, serialized flag values match the directive regex, rendered call '
    'expressions match the call regex.  Engine A (CrossHair, solver-enumerated bounded families because everything is '
    'text): write-back of every printed (path, value) through set_value; directive sequences of length <= 4 against a '
    'reference interpreter under every read / parse-split schedule; CallExpression.parse of rendered literal calls; '
    'FiddleFlagSerializer round trip')
ASSUMPTIONS = [
    'repr(str) is modelled as quote + s + quote on the alphabet of printable ASCII without quotes and backslash (on that '
    'alphabet repr adds no escapes; validated differentially); keys needing escapes are covered by the Engine-A family',
    '\\w / \\d are under-approximated by their ASCII classes',
]
OUT_OF_BOUNDS = ['dict keys containing quotes or "="', 'override targets inside tuples', 'leaves that are not Python literals',
                 'directive sequences longer than 4', 'config_file: directives (file I/O)']
LEVEL = 'other'

def _conc(v, lo, hi):
  """Concrete copy of a (decided) symbolic selector, obtained by comparisons only."""
  for c in range(lo, hi + 1):
    if v == c:
      return c
  return lo


# ----------------------------------------------------------------------------- B1: grammar agreement


def _printer_templates():
  """[(class name, [literal | ('hole', conversion)])] from the AST of daglish's `code` properties."""
  src = inspect.getsource(daglish)
  tree = ast.parse(src)
  out = {}
  for cls in tree.body:
    if isinstance(cls, ast.ClassDef) and cls.name in ('Attr', 'Index', 'Key'):
      for fn in cls.body:
        if isinstance(fn, ast.FunctionDef) and fn.name == 'code':
          ret = [n for n in ast.walk(fn) if isinstance(n, ast.Return)][0].value
          if not isinstance(ret, ast.JoinedStr):
            raise NotImplementedError(f'{cls.name}.code is not an f-string')
          parts = []
          for v in ret.values:
            if isinstance(v, ast.Constant):
              parts.append(v.value)
            elif isinstance(v, ast.FormattedValue):
              parts.append(('hole', {-1: '', 114: 'r', 115: 's'}[v.conversion]))
            else:
              raise NotImplementedError('f-string part')
          out[cls.name] = parts
  return out


def run_grammar(tier='quick'):
  _SECOND_LIMIT[0] = 6000 if tier == 'quick' else 60000
  import z3
  from engines import sre2z3
  results = []
  t0 = time.time()
  try:
    part = sre2z3.to_z3(daglish_extensions._PATH_PART.pattern)   # pylint: disable=protected-access
    cmd = sre2z3.to_z3(fdl_flags._COMMAND_RE.pattern)            # pylint: disable=protected-access
    call = sre2z3.to_z3(flag_utils.CallExpression._PARSE_RE.pattern)   # pylint: disable=protected-access
    templates = _printer_templates()
  except NotImplementedError as e:
    return [DirectResult('translate', 'inconclusive', f'unsupported construct: {e}')]
  # translator validation (Serval-style): concrete strings through re and through the encoding
  tests = ['.a', '.a_b1', "['k']", '["k"]', '[12]', "['']", '[-1]', '.a.b', 'x', "['a b']", "['a'b']", '[01]', '.', '[]',
           "['é']", "['a\\nb']", "[ 1]"]
  bad = sre2z3.validate(daglish_extensions._PATH_PART.pattern, tests)   # pylint: disable=protected-access
  tests2 = ['config:foo', 'set:x=1', 'bogus:1', 'config:', 'fiddler:f(1)', 'config_str:abc-_=', 'set:a\nb']
  bad += sre2z3.validate(fdl_flags._COMMAND_RE.pattern, tests2)        # pylint: disable=protected-access
  tests3 = ['fn(1, x=2)', 'a.b.c', 'fn(', 'f()', 'f(1)(2)', '', 'f(\n)', 'f g']
  bad += sre2z3.validate(flag_utils.CallExpression._PARSE_RE.pattern, tests3)   # pylint: disable=protected-access
  results.append(DirectResult('translator_validation', 'holds' if not bad else 'inconclusive',
                              f'{len(tests) + len(tests2) + len(tests3)} strings through re.fullmatch and the z3 encoding; '
                              f'disagreements: {bad}', round(time.time() - t0, 3), queries=len(tests) + len(tests2) + len(tests3),
                              reproduced=True if not bad else None))
  if bad:
    return results
  # matcher semantics: re.match on _PATH_PART returns the longest prefix that fully matches (corpus check)
  corpus = ['.a.b', ".a['k'].c", "['a b'][0].x", '.abc0[12]', "['k']['j']", '.a_b.c', "[0][1]", ".x['']", ".x['a.b'].y",
            ".x['[0]'].y", '.a1b2[3].c']
  pat = daglish_extensions._PATH_PART   # pylint: disable=protected-access
  wrong = []
  for sx in corpus:
    mm = pat.match(sx)
    longest = max([i for i in range(1, len(sx) + 1) if pat.fullmatch(sx[:i])], default=0)
    if (mm.end() if mm else 0) != longest:
      wrong.append(sx)
  results.append(DirectResult('matcher_is_longest_prefix', 'holds' if not wrong else 'inconclusive',
                              f'{len(corpus)} strings: re.match(...).end() equals the longest fully matching prefix; '
                              f'exceptions: {wrong}', 0.0, queries=len(corpus), reproduced=True if not wrong else None))
  if wrong:
    return results
  S = z3.StringSort()
  # key alphabet: printable ASCII without ' " \ =
  key_char = z3.Union(z3.Range(' ', '!'), z3.Range('#', '&'), z3.Range('(', '<'), z3.Range('>', '['), z3.Range(']', '~'))
  key_str = z3.Star(key_char)
  digits = z3.Union(z3.Re('0'), z3.Concat(z3.Range('1', '9'), z3.Star(z3.Range('0', '9'))))
  ident = z3.Concat(z3.Union(z3.Range('a', 'z'), z3.Range('A', 'Z'), z3.Re('_')),
                    z3.Star(z3.Union(z3.Range('a', 'z'), z3.Range('A', 'Z'), z3.Range('0', '9'), z3.Re('_'))))

  def printed(kind, hole):
    """z3 string term for the printed element with `hole` substituted (repr modelled as quoting)."""
    parts = []
    for p in templates[kind]:
      if isinstance(p, str):
        parts.append(z3.StringVal(p))
      elif p[1] == 'r' and kind == 'Key' and hole[1] == 'str':
        parts += [z3.StringVal("'"), hole[0], z3.StringVal("'")]
      else:
        parts.append(hole[0])
    return parts[0] if len(parts) == 1 else z3.Concat(*parts)

  def query(name, constraints, describe, replay=None, key=''):
    sol = z3.Solver()
    sol.set('timeout', 60000)
    for c in constraints:
      sol.add(c)
    t = time.time()
    r = str(sol.check())
    dt = round(time.time() - t, 3)
    second = _second_solver(sol.to_smt2())
    describe = describe + f' [z3 {z3.get_version_string()}: {r}; cvc5 binary: {second}]'
    if second in ('sat', 'unsat') and r in ('sat', 'unsat') and second != r:
      results.append(DirectResult(name, 'inconclusive', describe + ' - the two solvers disagree', dt, queries=2))
      return
    if r == 'unsat':
      results.append(DirectResult(name, 'holds', describe, dt, sample=describe, queries=2))
    elif r == 'sat':
      m = sol.model()
      model = {str(d): (m[d].as_string() if z3.is_string_value(m[d]) else str(m[d])) for d in m.decls()}
      rep = replay(model) if replay else None
      results.append(DirectResult(name, 'violated', describe, dt, model=model, reproduced=rep, finding_key=key or name))
    else:
      results.append(DirectResult(name, 'inconclusive', describe + ' (solver: unknown)', dt))

  def witness(name, constraints, describe):
    """Vacuity guard: the un-negated side of a query must be satisfiable (the domain is not empty)."""
    sol = z3.Solver()
    sol.set('timeout', 60000)
    for c in constraints:
      sol.add(c)
    t = time.time()
    r = str(sol.check())
    dt = round(time.time() - t, 3)
    if r == 'sat':
      m = sol.model()
      model = {str(d): (m[d].as_string() if z3.is_string_value(m[d]) else str(m[d])) for d in m.decls()}
      results.append(DirectResult(name, 'holds', describe, dt, sample=model))
    else:
      results.append(DirectResult(name, 'inconclusive', describe + f' (expected sat, solver: {r})', dt))

  s = z3.String('s')
  n = z3.String('n')
  a = z3.String('a')
  rest = z3.String('rest')
  m_ = z3.String('m')
  elem = {
      'Key(str)': (printed('Key', (s, 'str')), [z3.InRe(s, key_str)]),
      'Key(int)': (printed('Key', (n, 'int')), [z3.InRe(n, digits)]),
      'Index': (printed('Index', (n, 'int')), [z3.InRe(n, digits)]),
      'Attr': (printed('Attr', (a, 'name')), [z3.InRe(a, ident)]),
  }

  def replay_parse(kind):
    def rp(model):
      try:
        if kind == 'Key(str)':
          p = daglish.path_str((daglish.Key(model.get('s', '')),))
        elif kind in ('Key(int)', 'Index'):
          p = daglish.path_str((daglish.Key(int(model.get('n', '0'))),))
        else:
          p = daglish.path_str((daglish.Attr(model.get('a', 'a')),))
        got = daglish_extensions.parse_path(p)
        return len(got) != 1            # reproduced iff the real parser does not return exactly one element
      except ValueError:
        return True
    return rp

  for kind, (term, dom) in elem.items():
    witness(f'witness_{kind}', dom + [z3.InRe(term, part), z3.Length(term) >= 4],
            f'some printed {kind} element of length >= 4 is parsable (domain and template are not vacuous)')
    query(f'printed_{kind}_is_parsable', dom + [z3.Not(z3.InRe(term, part))],
          f'for every {kind} value over the stated alphabet (any length) the printed element is in L(_PATH_PART)',
          replay_parse(kind), key=f'printed_{kind}_is_parsable')
    # unique split: regex.match is modelled as returning the *longest* prefix that is a parsable element (validated
    # against re on a corpus below); so the split is right iff no parsable element longer than the printed one is a
    # prefix of (printed element + continuation)
    # a longer parsable prefix exists iff (printed element + u) is parsable for some non-empty u that begins the
    # continuation, i.e. u starts with '.' or '['
    u_lang = z3.Concat(z3.Union(z3.Re('.'), z3.Re('[')), z3.Star(sre_any()))
    query(f'split_after_{kind}_is_unique', dom + [z3.InRe(rest, u_lang), z3.InRe(z3.Concat(term, rest), part)],
          f'no parsable element longer than a printed {kind} element is a prefix of it followed by any continuation', None)
    query(f'no_equals_sign_in_{kind}', dom + [z3.Contains(term, z3.StringVal('='))],
          f'"=" does not occur in a printed {kind} element, so set_value splits path=value at the right place', None)
  # serialized flag value: "config_str:" + non-empty urlsafe base64 text
  b64 = z3.Plus(z3.Union(z3.Range('A', 'Z'), z3.Range('a', 'z'), z3.Range('0', '9'), z3.Re('-'), z3.Re('_'), z3.Re('=')))
  v = z3.String('v')
  query('serialized_flag_matches_directive_regex', [z3.InRe(v, b64), z3.Not(z3.InRe(z3.Concat(z3.StringVal('config_str:'), v), cmd))],
        'every "config_str:" + urlsafe-base64 payload matches _COMMAND_RE', None)
  # rendered call expressions: dotted name + "(" + newline-free text + ")"
  dotted = z3.Concat(ident, z3.Star(z3.Concat(z3.Re('.'), ident)))
  f = z3.String('f')
  args = z3.String('args')
  noline = z3.Star(z3.Intersect(sre_any(), z3.Complement(z3.Re('\n'))))
  query('rendered_call_matches_call_regex',
        [z3.InRe(f, dotted), z3.InRe(args, noline),
         z3.Not(z3.InRe(z3.Concat(f, z3.StringVal('('), args, z3.StringVal(')')), call))],
        'every dotted name followed by a parenthesised newline-free argument text matches _PARSE_RE', None)
  query('bare_name_matches_call_regex', [z3.InRe(f, dotted), z3.Not(z3.InRe(f, call))],
        'every dotted name alone matches _PARSE_RE', None)
  return results


_SECOND_LIMIT = [6000]


def _second_solver(smt2_text):
  """The same query as SMT-LIB2 text through the cvc5 binary (another implementation of the string theory)."""
  import os
  import subprocess
  import tempfile
  d = '/verif/.scratch'
  os.makedirs(d, exist_ok=True)
  f = tempfile.NamedTemporaryFile('w', suffix='.smt2', delete=False, dir=d)
  try:
    f.write(smt2_text)
    f.close()
    out = subprocess.run(['cvc5', '--strings-exp', f'--tlimit={_SECOND_LIMIT[0]}', f.name], capture_output=True, text=True,
                         timeout=_SECOND_LIMIT[0] / 1000 + 20).stdout
    first = out.strip().split('\n')[0] if out.strip() else ''
    return first if first in ('sat', 'unsat') and '(error' not in out else 'no answer'
  except Exception:  # pylint: disable=broad-except
    return 'no answer'
  finally:
    try:
      os.unlink(f.name)
    except OSError:
      pass


def replay_direct(body):
  """./check C18 --replay FILE for a B1 counterexample: pushes the model string through the real printer and parser."""
  import ast as _ast
  model = _ast.literal_eval(body['args_repr'])['model'] or {}
  name = body['fn']
  try:
    if 'Key(str)' in name:
      p = daglish.path_str((daglish.Key(model.get('s', '')),))
    elif 'Attr' in name:
      p = daglish.path_str((daglish.Attr(model.get('a', 'a')),))
    else:
      p = daglish.path_str((daglish.Key(int(model.get('n', '0'))),))
    got = daglish_extensions.parse_path(p + model.get('rest', ''))
    print('printed', repr(p), 'parsed', got)
    return len(got) >= 1 and got[0].code == p
  except ValueError as e:
    print('printed path rejected by the real parser:', e)
    return False


def sre_any():
  from engines import sre2z3
  return sre2z3.ANY


# ----------------------------------------------------------------------------- A: write-back

KEYS = ['', 'a b', 'k', 'a\\b', '\n', '\xe9', 'x.y', '[0]', 0, 7, 'None', '0']
LEAVES = [0, -3, 1.5, 'txt', '', "it's", 'a=b', True, None, [1, 2], {'k': 1}, (1, 2), b'by', 2**70, 'true', [], {}]
NWL = len(LEAVES)


def _lf(i):
  """Leaf i; the empty containers (printed as leaves) are a fresh object at every site, the others are shared."""
  return copy.copy(LEAVES[i]) if i >= 15 else LEAVES[i]


def _wb_member(k1, k2, l1, l2, w, pos):
  n0 = fdl.Config(fam.fkw, x=_lf(l1), y=[_lf(l2), fdl.Config(fam.g0, x=_lf(l1))], extra=_lf(l2))
  d = {KEYS[k1]: n0, KEYS[k2]: fdl.Config(fam.g1, x=_lf(l2), y={KEYS[k1]: [fdl.Config(fam.g2, x=_lf(l1))]})}
  if pos:
    root = fdl.Config(fam.fp, fam.wrap(w, n0), _lf(l1), 3, _lf(l2), fdl.Config(fam.g3, x=d), k=d)
  else:
    root = fdl.Config(fam.g4, x=d, y=fam.wrap(w, n0), z=_lf(l2))
  return root


def _tokens(path):
  """Independent tokenizer for printed paths: .name, [int], ['str'] (bracket content via ast.literal_eval)."""
  out = []
  i = 0
  if path and path[0] not in '.[':
    path = '.' + path
  while i < len(path):
    if path[i] == '.':
      j = i + 1
      while j < len(path) and (path[j].isalnum() or path[j] == '_'):
        j += 1
      out.append(('attr', path[i + 1:j]))
      i = j
    elif path[i] == '[':
      # find the matching bracket, honouring quotes
      j = i + 1
      if path[j] in '\'"':
        q = path[j]
        j += 1
        while path[j] != q:
          j += 2 if path[j] == '\\' else 1
        j += 1
      else:
        while path[j] != ']':
          j += 1
      out.append(('item', ast.literal_eval(path[i + 1:j])))
      i = j + 1
    else:
      raise ValueError(path)
  return out


def _follow(obj, tok):
  kind, v = tok
  if isinstance(obj, fdl.Buildable):
    return obj.__arguments__[v]
  if kind == 'attr':
    return getattr(obj, v)
  return obj[v]


def _assign(obj, tok, value):
  kind, v = tok
  if isinstance(obj, fdl.Buildable):
    if isinstance(v, int):
      obj[v] = value
    else:
      setattr(obj, v, value)
  elif kind == 'attr':
    raise TypeError('attribute of a non-Buildable')
  else:
    obj[v] = value


def c18_writeback(k1: int, k2: int, l1: int, l2: int, w: int, pos: bool) -> bool:
  """
  Every (path, value) of as_dict_flattened / as_str_flattened appears once, resolves to that leaf, and
  set_value(copy, path=repr(new)) changes exactly that leaf.
  require: 0 <= k1 < 12 and 0 <= k2 < 12 and 0 <= l1 < 17 and 0 <= l2 < 17 and 0 <= w <= 5
  """
  import crosshair
  k1, k2, l1, l2, w = _conc(k1, 0, 11), _conc(k2, 0, 11), _conc(l1, 0, NWL - 1), _conc(l2, 0, NWL - 1), _conc(w, 0, 5)
  pos = bool(pos)
  with crosshair.NoTracing():
    if KEYS[k1] == KEYS[k2]:
      return True
    root = _wb_member(k1, k2, l1, l2, w, pos)
    before = canon(root)
    flat = printing.as_dict_flattened(root)
    lines = [ln for ln in printing.as_str_flattened(root).split('\n') if ln and '<[unset' not in ln]
    note('c18w', k1, k2, l1, l2, w, pos, len(flat))
    if len(lines) != len(flat):
      return False
    seen = set()
    for path, value in flat.items():
      if path in seen:
        return False
      seen.add(path)
      # the str printer lists the same leaf under the same path, once
      if sum(1 for ln in lines if ln.startswith(path + ' = ')) != 1:
        return False
      toks = _tokens(path)
      obj = root
      parents = []
      for t in toks:
        parents.append(obj)
        obj = _follow(obj, t)
      if obj is not value and obj != value:
        return False
      if any(isinstance(p, tuple) for p in parents):
        continue                              # targets inside tuples cannot be overridden (excluded by the property)
      for new in (value, 424242, 'it is "new"'):
        c = copy.deepcopy(root)
        try:
          flag_utils.set_value(c, f'{path}={new!r}')
        except Exception:  # pylint: disable=broad-except
          return False
        e = copy.deepcopy(root)
        o = e
        for t in toks[:-1]:
          o = _follow(o, t)
        _assign(o, toks[-1], new)
        if canon(c) != canon(e):
          return False
    # writing every printed leaf back, one override after the other into the same copy, equals assigning a fresh copy of
    # each value at its site - in particular it introduces no aliasing between leaves whose printed values are
    # textually identical (and changes nothing at all where the leaves are immutable)
    c = copy.deepcopy(root)
    e = copy.deepcopy(root)
    for path, value in flat.items():
      toks = _tokens(path)
      obj = root
      parents = []
      for t in toks:
        parents.append(obj)
        obj = _follow(obj, t)
      if any(isinstance(p, tuple) for p in parents):
        continue
      try:
        flag_utils.set_value(c, f'{path}={value!r}')
      except Exception:  # pylint: disable=broad-except
        return False
      o = e
      for t in toks[:-1]:
        o = _follow(o, t)
      _assign(o, toks[-1], copy.deepcopy(value))
    if canon(c) != canon(e):
      return False
    return canon(root) == before


# ----------------------------------------------------------------------------- A: directives

def base():
  return fdl.Config(fam.g1, x=0, y=fdl.Config(fam.g0, x=0))


def base2(n=1):
  return fdl.Config(fam.g1, x=n, y=fdl.Config(fam.g0, x=-n), z=[n])


def f1(cfg):
  cfg.x = cfg.x * 2 + 1                     # not idempotent


def f2(cfg, k=3):
  return fdl.Config(fam.g1, x=cfg.x + k, y=cfg.y, z=cfg.__arguments__.get('z'))


FLAKY = {'calls': 0}


def f_once(cfg):
  """Changes the configuration and then fails - on its first invocation only."""
  FLAKY['calls'] += 1
  cfg.x = cfg.x + 100
  if FLAKY['calls'] == 1:
    raise RuntimeError('flaky fiddler')


DIRECTIVES = ['config:base', 'config:base2(2)', 'config_str:@', 'set:x=1', 'set:x=2', 'set:y.x=3', 'fiddler:f1',
              'fiddler:f2(k=5)', 'bogus', 'set:y.x=x=4', 'fiddler:f_once']
ND = len(DIRECTIVES)


def _ref_run(seq):
  """Reference interpreter: left fold; returns ('ok', canon) or ('error',)."""
  cfg = None
  have_base = False
  blob_cfg = base2(7)
  try:
    for d in seq:
      if ':' not in d:
        raise ValueError('ill-formed')
      cmd, expr = d.split(':', 1)
      if cmd not in ('config', 'config_str', 'set', 'fiddler'):
        raise ValueError('ill-formed')
      if not have_base and cmd not in ('config', 'config_str'):
        raise ValueError('first directive must be a base config')
      if cmd in ('config', 'config_str'):
        if have_base:
          raise ValueError('second base config')
        have_base = True
        if cmd == 'config_str':
          cfg = blob_cfg
        elif expr == 'base':
          cfg = base()
        else:
          cfg = base2(2)
      elif cmd == 'set':
        path, val = expr.split('=', 1)
        val = ast.literal_eval(val)         # 'x=4' is not a literal -> error, like the real parser
        if path == 'x':
          cfg.x = val
        else:
          cfg.y.x = val
      else:
        if expr == 'f1':
          f1(cfg)
        elif expr == 'f_once':
          raise RuntimeError('flaky fiddler')      # its first (and only legitimate) invocation fails
        else:
          cfg = f2(cfg, k=5)
  except Exception:  # pylint: disable=broad-except
    return ('error',)
  return ('ok', canon(cfg))


def c18_directives(n: int, d0: int, d1: int, d2: int, d3: int, split: int, reads: int) -> bool:
  """
  A FiddleFlag applies its directives strictly in command-line order, whatever the parse() grouping (split: bit i =
  new parse() call before directive i) and whenever .value is read in between (reads: bit i = read after directive i).
  require: 1 <= n <= 4 and 0 <= d0 < 11 and 0 <= d1 < 11 and 0 <= d2 < 11 and 0 <= d3 < 11 and 0 <= split < 16 and 0 <= reads < 16
  """
  import crosshair
  n, d0, d1, d2, d3 = _conc(n, 1, 4), _conc(d0, 0, ND - 1), _conc(d1, 0, ND - 1), _conc(d2, 0, ND - 1), _conc(d3, 0, ND - 1)
  split, reads = _conc(split, 0, 15), _conc(reads, 0, 15)
  with crosshair.NoTracing():
    from absl import flags as absl_flags
    seq = [DIRECTIVES[d] for d in (d0, d1, d2, d3)[:n]]
    blob = fdl_flags.FiddleFlagSerializer().serialize(base2(7))
    real = [blob if d == 'config_str:@' else d for d in seq]
    want = _ref_run(seq)
    flag = fdl_flags.FiddleFlag(name='cfg', default=None, parser=absl_flags.ArgumentParser(), serializer=None,
                                help_string='h', default_module=sys.modules[__name__])
    note('c18d', n, d0, d1, d2, d3, split, reads)
    got = None
    FLAKY['calls'] = 0
    try:
      group = []
      for i, d in enumerate(real):
        if group and (split >> i) & 1:
          flag.parse(group)
          group = []
        group.append(d)
        if (reads >> i) & 1:
          flag.parse(group)
          group = []
          _ = flag.value
      if group:
        flag.parse(group)
      got = ('ok', canon(flag.value))
    except Exception:  # pylint: disable=broad-except
      got = ('error',)
    if want[0] == 'error' or got[0] == 'error':
      # an early read may surface the error before later directives are even parsed: both must end in an error.  A
      # caller that catches the error and reads again must not see a directive applied a second time.
      try:
        _ = flag.value
      except Exception:  # pylint: disable=broad-except
        pass
      if FLAKY['calls'] > seq.count('fiddler:f_once'):
        return False
      return want[0] == got[0]
    return got == want


def c18_serializer(shape: int, lv: int) -> bool:
  """
  A configuration serialized into a flag value parses back to an equal configuration (shapes 4-7: the flag itself,
  holding a base config plus later directives, is serialized with Flag.serialize() and parsed back by a second flag).
  require: 0 <= shape <= 7 and -2 <= lv <= 2
  """
  import crosshair
  shape, lv = _conc(shape, 0, 7), _conc(lv, -2, 2)
  with crosshair.NoTracing():
    from absl import flags as absl_flags
    if shape >= 4:
      blob = fdl_flags.FiddleFlagSerializer().serialize(base2(7))
      directives = [[blob], [blob, f'set:x={lv + 10}'], ['config:base2(2)', 'set:y.x=3', 'fiddler:f1'],
                    [blob, 'fiddler:f2(k=5)', f'set:x={lv}']][shape - 4]
      mk = lambda: fdl_flags.FiddleFlag(name='cfg', default=None, parser=absl_flags.ArgumentParser(),
                                        serializer=fdl_flags.FiddleFlagSerializer(), help_string='h',
                                        default_module=sys.modules[__name__])
      flag = mk()
      flag.parse(directives)
      value = flag.value
      text = flag.serialize()
      note('c18s', shape, lv)
      if not text.startswith('--cfg='):
        return False
      flag2 = mk()
      flag2.parse([text[len('--cfg='):]])
      back = flag2.value
      return canon(back) == canon(value) and back == value and canon(flag.value) == canon(value)
    inner = fdl.Config(fam.fkw, x=lv, y=[lv, 'a=b', "q'"], extra={'': lv})
    shared = [inner, lv]
    cfg = [fdl.Config(fam.g1, x=inner, y=shared, z=shared), fdl.Partial(fam.g1, x=fdl.ArgFactory(fam.g0, x=shared)),
           fdl.Config(fam.fp, inner, 2, 3, shared, k=(1, 'a')), fdl.Config(fam.g0)][shape]
    text = fdl_flags.FiddleFlagSerializer().serialize(cfg)
    flag = fdl_flags.FiddleFlag(name='cfg', default=None, parser=absl_flags.ArgumentParser(), serializer=None,
                                help_string='h', default_module=sys.modules[__name__])
    flag.parse([text])
    note('c18s', shape, lv)
    back = flag.value
    return canon(back) == canon(cfg) and back == cfg


ARGS = [0, -1, 1.5, 'a', "it's", 'a,b', 'x)', '(', True, None, [1, 'b'], {'k': (1, 2)}, (), b'b', 'a=b', '', '\xe9',
        '\u65e5\u672c \U0001f600']
NARGS = len(ARGS)


def c18_call_expr(name: int, a0: int, a1: int, k0: int, nargs: int, nkw: int) -> bool:
  """
  CallExpression.parse of a rendered call with literal arguments gives back the name, the arguments and the keywords.
  require: 0 <= name <= 3 and 0 <= a0 < 18 and 0 <= a1 < 18 and 0 <= k0 < 18 and 0 <= nargs <= 2 and 0 <= nkw <= 1
  """
  import crosshair
  name, a0, a1, k0 = _conc(name, 0, 3), _conc(a0, 0, NARGS - 1), _conc(a1, 0, NARGS - 1), _conc(k0, 0, NARGS - 1)
  nargs, nkw = _conc(nargs, 0, 2), _conc(nkw, 0, 1)
  with crosshair.NoTracing():
    fname = ['f', 'mod.fn', 'a.b_c.D2', '_x'][name]
    args = [ARGS[a0], ARGS[a1]][:nargs]
    kwargs = {'kw': ARGS[k0]} if nkw else {}
    note('c18c', name, a0, a1, k0, nargs, nkw)
    if not args and not kwargs and a0 % 2:
      text = fname                               # bare name
    else:
      text = f"{fname}({', '.join([repr(a) for a in args] + [f'{k}={v!r}' for k, v in kwargs.items()])})"
    ce = flag_utils.CallExpression.parse(text)
    return ce.func_name == fname and ce.args == tuple(args) and ce.kwargs == kwargs and \
        [type(x) for x in ce.args] == [type(x) for x in args]


def obligations(tier, seed):
  # thorough: every (k1, wrapper, root kind) cube with k2 and l1 symbolic, l2 tied to l1 in three different ways
  wcubes = [Cube(f'k{k1}_w{w}_p{int(pos)}_o{o}', [f'l2 == (l1 + {k1} + {o}) % 17'], dict(k1=k1, w=w, pos=pos), est=180)
            for k1 in range(12) for w in range(6) for pos in (False, True) for o in (0, 5, 10) if (k1 + w + o) % 2 == 0]
  if tier == 'quick':
    # k2 and l1 symbolic; l2 tied to l1, wrapper and root kind by cube
    wcubes = [Cube(f'k{k1}', [f'l2 == (l1 + {k1}) % 17'], dict(k1=k1, w=k1 % 6, pos=bool(k1 % 2)), est=180) for k1 in range(12)]
  # thorough: all sequences of length <= 3 under every grouping / read schedule; length 4 under 20 schedules
  dcubes = []
  for n in range(1, 5):
    for d0 in range(ND):
      for d1 in range(ND):
        if n == 1 and d1:
          continue
        fix = dict(n=n, d0=d0, d1=d1)
        for j in range(max(n, 2), 4):
          fix[f'd{j}'] = 0
        pre = ['split in (0, 5, 10) and reads in (0, 5, 10, 15)'] if n == 4 else []
        dcubes.append(Cube(f'n{n}_d{d0}_{d1}', pre, fix, est=11 ** max(n - 2, 0) * (12 if n == 4 else 256)))
  if tier == 'quick':
    dcubes = []
    for n in range(1, 5):
      for d0 in range(ND):
        if n == 4 and d0 not in (0, 1, 2):
          continue            # (a sequence that does not start with a base config fails at once: covered by n <= 3)
        pre = []
        if n == 3:
          pre = ['split in (0, 2, 6) and reads in (0, 1, 3, 5)']
        if n == 4:
          pre = ['(split == 0 and reads in (0, 5, 10)) or (split == 10 and reads == 0)']
        fix = dict(n=n, d0=d0)
        for j in range(n, 4):
          fix[f'd{j}'] = 0                 # unused positions
        dcubes.append(Cube(f'n{n}_d{d0}', pre, fix, est=11 ** (n - 1) * (4 if n == 4 else 12)))
  t = 300 if tier == 'quick' else 1200
  return [
      Obligation('c18_grammar', kind='direct', run=(lambda tier=tier: run_grammar(tier)),
                 bounds_note='unbounded string length; key alphabet printable ASCII without quotes, backslash and "="; '
                             'continuation length <= 12 in the unique-split queries'),
      Obligation('c18_writeback', c18_writeback, wcubes, timeout=t, path_timeout=120, enumerated=True,
                 smoke=dict(k1=0, k2=1, l1=3, l2=5, w=1, pos=True),
                 extra_smokes=[dict(k1=k, k2=(k + 5) % 12, l1=k % 17, l2=(k + 7) % 17, w=k % 6, pos=bool(k % 2)) for k in range(12)] + [dict(k1=2, k2=3, l1=15, l2=15, w=0, pos=False), dict(k1=2, k2=3, l1=16, l2=15, w=1, pos=True)]),
      Obligation('c18_directives', c18_directives, dcubes, timeout=t, path_timeout=120, enumerated=True,
                 smoke=dict(n=4, d0=0, d1=3, d2=6, d3=3, split=5, reads=2),
                 extra_smokes=[dict(n=3, d0=2, d1=7, d2=5, d3=0, split=0, reads=0), dict(n=2, d0=3, d1=0, d2=0, d3=0, split=0, reads=0),
                               dict(n=4, d0=0, d1=3, d2=4, d3=3, split=0, reads=0), dict(n=2, d0=0, d1=1, d2=0, d3=0, split=2, reads=1)]),
      Obligation('c18_serializer', c18_serializer, [Cube(f's{s}', [], dict(shape=s)) for s in range(8)], timeout=120,
                 enumerated=True, smoke=dict(shape=0, lv=1)),
      Obligation('c18_call_expr', c18_call_expr,
                 [Cube(f'n{nm}_a{na}', [], dict(dict(name=nm, nargs=na), **({'k0': (nm * 5 + na * 3) % 18} if tier == 'quick' else {})),
                       est=18 * 18 * 18 * 2) for nm in range(4) for na in range(3)], timeout=t, enumerated=True,
                 smoke=dict(name=1, a0=4, a1=11, k0=6, nargs=2, nkw=1), extra_smokes=[dict(name=0, a0=16, a1=0, k0=17, nargs=2, nkw=1)]),
  ]
