"""C16 - argument history is a faithful, ordered log of edits."""
from __future__ import annotations

import copy

import fiddle as fdl
from fiddle import history
from fiddle._src import materialize
from fiddle._src import tagging
from fiddle._src.experimental import serialization

from fvlib import fam, sigs
from fvlib import stubs
from fvlib.canon import canon
from fvlib.notes import note
from fvrun.spec import Cube, Obligation
from harness import c03

PROPERTY = 'C16'
stubs.stub_buildable_repr()
stubs.stub_build_message_formatting()
EXPLANATION = (
    'bounded symbolic execution of the real edit paths (Buildable.__setattr__/__setitem__/__delitem__, tagging '
    'add/remove/set/clear, update_callable, materialize_defaults, assign, copy_with) together with '
    'history.History / suspend_tracking (CrossHair + z3): operation kinds, addresses and the suspend layout are '
    'solver-enumerated over the C03 operation space, assigned values are unbounded symbolic ints; history '
    'invariants are asserted after every prefix, on two configurations edited alternately')
ASSUMPTIONS = [
    'stubs: Buildable.__repr__, building._format_arg constant',
    '"attributed to the caller" is asserted as "the recorded file is not one of Fiddle\'s own modules" (under '
    'CrossHair the interpreter stack contains tracer frames, so the exact caller file is not asserted)',
    'the multi-thread clause of C16 is decided in C19',
]
OUT_OF_BOUNDS = ['histories longer than 2 (3 in c16_misc) operations', 'custom location providers',
                 'signatures outside the catalogue']

MISSING = object()


def _entries(cfg):
  return {k: list(v) for k, v in cfg.__argument_history__.items()}


def _all_ids(*cfgs):
  out = []
  for c in cfgs:
    for v in c.__argument_history__.values():
      out.extend(e.sequence_id for e in v)
  return out


def _loc_ok(e):
  """Direct edits (value entries) must not be attributed to Fiddle's own modules.

  Tag entries written through the tagging API (fdl.add_tag & co.) are attributed to tagging.py by
  design - the pinned suite asserts `... @ .*:\\d+:add_tag` (printing_test) - so they are exempt:
  demanding caller attribution there was a false alarm of an earlier version of this harness."""
  if e.kind == history.ChangeKind.UPDATE_TAGS:
    return True
  fn = e.location.filename.replace('\\', '/')
  return not ('/fiddle/_src/' in fn and not fn.endswith('_test.py'))


def ends_with_current(cfg) -> bool:
  """Per parameter: last value entry is the current value / DELETED; last tag entry is the tag set."""
  hist = cfg.__argument_history__
  args = cfg.__arguments__
  for k in set(hist) | set(args):
    if k == '__fn_or_cls__':
      vals = [e for e in hist[k] if e.kind == history.ChangeKind.NEW_VALUE]
      if not vals or vals[-1].new_value is not cfg.__fn_or_cls__:
        return False
      continue
    vals = [e for e in hist.get(k, []) if e.kind == history.ChangeKind.NEW_VALUE]
    if k in args:
      if not vals:
        return False
      last = vals[-1].new_value
      if last is not args[k] and not (last == args[k]):
        return False
    elif vals and vals[-1].new_value is not history.DELETED:
      return False
    tags = [e for e in hist.get(k, []) if e.kind == history.ChangeKind.UPDATE_TAGS]
    cur = cfg.__argument_tags__.get(k, set())
    if tags:
      if tags[-1].new_value != frozenset(cur):
        return False
    elif cur:
      return False
  return True


def step_invariants(cfg, before_args, before_hist, max_id_before, suspended, other) -> bool:
  """What one (possibly rejected) operation may have added to the history of cfg."""
  after_args = cfg.__arguments__
  hist = cfg.__argument_history__
  new_ids = []
  for k in set(hist) | set(before_hist):
    old = before_hist.get(k, [])
    new = hist.get(k, [])
    if new[:len(old)] != old:
      return False                       # history is append-only
    added = new[len(old):]
    for e in added:
      if e.param_name != k or not _loc_ok(e):
        return False
      new_ids.append(e.sequence_id)
    if suspended:
      if added:
        return False                     # suspended edits add nothing
      continue
    added_vals = [e for e in added if e.kind == history.ChangeKind.NEW_VALUE]
    b = before_args.get(k, MISSING)
    a = after_args.get(k, MISSING)
    if k == '__fn_or_cls__':
      continue
    if a is not b:
      if len(added_vals) != 1:
        return False                     # every change of a stored value: exactly one entry
    elif len(added_vals) > 1:
      return False
  # sequence numbers: strictly increasing in program order, unique across configurations
  if new_ids:
    if sorted(new_ids) != new_ids and len(set(new_ids)) != len(new_ids):
      return False
    if min(new_ids) <= max_id_before:
      return False
  ids = _all_ids(cfg, other)
  if len(set(ids)) != len(ids):
    return False
  for v in hist.values():
    s = [e.sequence_id for e in v]
    if any(s[i] >= s[i + 1] for i in range(len(s) - 1)):
      return False
  return True


def c16_ops2(sig: int, s0: bool, s1: bool, s2: bool, s3: bool, so: bool, sx: bool, nva: int, sus: int,
             k0: int, nm0: int, ix0: int, a0: int, b0: int, c0: int, m0: int, v0: int,
             k1: int, nm1: int, ix1: int, a1: int, b1: int, c1: int, m1: int, v1: int) -> bool:
  """
  Two C03 operations; sus: 0 none suspended, 1 second op inside suspend_tracking, 2 first op inside,
  3 both inside a nested double block, 4 first op inside a block that also raises.
  require: 0 <= sig < 324 and 0 <= nva <= 2 and 0 <= sus <= 4
  require: 0 <= k0 <= 8 and 0 <= nm0 <= 6 and 0 <= m0 <= 3 and (ix0 == 98 or -8 <= ix0 <= 8)
  require: (a0 in (98, 99) or -8 <= a0 <= 8) and (b0 in (98, 99) or -8 <= b0 <= 8)
  require: c0 == 99 or (c0 != 0 and -3 <= c0 <= 3)
  require: 0 <= k1 <= 8 and 0 <= nm1 <= 6 and 0 <= m1 <= 3 and (ix1 == 98 or -8 <= ix1 <= 8)
  require: (a1 in (98, 99) or -8 <= a1 <= 8) and (b1 in (98, 99) or -8 <= b1 <= 8)
  require: c1 == 99 or (c1 != 0 and -3 <= c1 <= 3)
  """
  cfg, ref = c03.make_initial(sig, (s0, s1, s2, s3, so, sx), nva)
  other, oref = c03.make_initial(sig, (s0, s1, s2, s3, so, sx), nva)
  if not ends_with_current(cfg) or not history.tracking_enabled():
    return False
  ops = [(k0, nm0, ix0, a0, b0, c0, m0, v0), (k1, nm1, ix1, a1, b1, c1, m1, v1)]
  inside = [sus in (2, 3, 4), sus in (1, 3)]
  del c03.op_outcome[:]
  touched_while_suspended = False
  for i, op in enumerate(ops):
    before_args = dict(cfg.__arguments__)
    before_hist = _entries(cfg)
    ids = _all_ids(cfg, other)
    max_before = max(ids) if ids else -1
    if inside[i]:
      try:
        with history.suspend_tracking():
          if sus == 3:
            with history.suspend_tracking():
              pass
            if history.tracking_enabled():
              return False               # inner block must restore "suspended", not "enabled"
          ok = c03.apply_op(cfg, ref, op)
          if sus == 4:
            raise KeyError('boom')
      except KeyError:
        pass
      if not history.tracking_enabled():
        return False                     # flag restored, also when the block raised
      touched_while_suspended = True
    else:
      ok = c03.apply_op(cfg, ref, op)
    if not ok:
      return False
    if not step_invariants(cfg, before_args, before_hist, max_before, inside[i], other):
      return False
    if not touched_while_suspended and not ends_with_current(cfg):
      return False
    # interleave an edit of another configuration (sequence ids must stay unique / increasing)
    ob = _all_ids(cfg, other)
    omax = max(ob) if ob else -1
    if oref.F:
      other[0] = 900 + i
      added = [e.sequence_id for v in other.__argument_history__.values() for e in v if e.sequence_id > omax]
      if len(added) != 1:
        return False
  # history never influences equality or building
  cleared = serialization.clear_argument_history(cfg)
  if any(v for k, v in cleared.__argument_history__.items()):
    return False
  note('c16', tuple(sorted(map(str, cfg.__arguments__))), tuple(c03.OPNAMES[o[0]] for o in ops), sus,
       tuple(c03.op_outcome))
  if not (cfg == cleared) or canon(cfg) != canon(cleared):
    return False
  return True


class T0(fdl.Tag):
  """t0"""


class T1(T0):
  """t1"""


def two(x=None, y=None):
  return sigs.Rec('two', (x, y), (), (), {})


def _misc_op(cfg, k, v):
  """Applies misc operation k to cfg (or a derived copy); returns the Buildable to keep checking."""
  if k == 0:
    tagging.add_tag(cfg, 'x', T0)
  elif k == 1:
    try:
      tagging.remove_tag(cfg, 'x', T0)
    except ValueError:
      pass
  elif k == 2:
    tagging.set_tags(cfg, 'y', {T0, T1})
  elif k == 3:
    tagging.clear_tags(cfg, 'x')
  elif k == 4:
    fdl.update_callable(cfg, fam.g1 if fdl.get_callable(cfg) is fam.g0 else fam.g0)
  elif k == 5:
    materialize.materialize_defaults(cfg)
  elif k == 6:
    if fdl.get_callable(cfg) is two:
      fdl.assign(cfg, x=v, y=v + 1)
    else:
      fdl.assign(cfg, x=v, z=v + 1)
  elif k == 7:
    return fdl.copy_with(cfg, y=v)
  elif k == 8:
    cfg.x = T1.new(v)            # value and tag arrive together
  elif k == 10:
    # a callable without `z`: dropped arguments must be logged as deletions
    if fdl.get_callable(cfg) is two:
      fdl.update_callable(cfg, fam.g0)
    else:
      fdl.update_callable(cfg, two, drop_invalid_args=True)
  elif k == 11:
    # an edit made by a helper thread that has finished (joined) before the next operation: program order across threads
    import threading
    th = threading.Thread(target=lambda: setattr(cfg, 'y', 77))
    th.start()
    th.join()
  else:
    del cfg.x
  return cfg


def c16_misc(k0: int, k1: int, k2: int, v: int, sus: int) -> bool:
  """
  Tag edits, update_callable, materialize_defaults, assign, copy_with, tagged assignment, deletion.
  require: 0 <= k0 <= 11 and 0 <= k1 <= 11 and 0 <= k2 <= 11 and 0 <= sus <= 5
  """
  cfg = fdl.Config(fam.g0, x=1)
  other = fdl.Config(fam.g1, y=2)
  if not ends_with_current(cfg):
    return False
  suspended_any = False
  outer = None
  if sus >= 4:
    # sus 4: the first two operations run inside an outer suspend block, the first of them inside an inner one as well;
    # sus 5: tracking is switched off imperatively around the first two operations, the first runs in a suspend block.
    # Either way the second operation comes after the inner block has been left and must not be logged.
    if sus == 4:
      outer = history.suspend_tracking()
      outer.__enter__()
    else:
      history.set_tracking(enabled=False)
  for i, k in enumerate((k0, k1, k2)):
    before_hist = _entries(cfg)
    ids = _all_ids(cfg, other)
    max_before = max(ids) if ids else -1
    if k == 9 and 'x' not in cfg.__arguments__:
      if sus >= 4 and i == 1:
        if outer is not None:
          outer.__exit__(None, None, None)
        else:
          history.set_tracking(enabled=True)
      continue
    if sus == i + 1 or (sus >= 4 and i == 0):
      with history.suspend_tracking():
        new = _misc_op(cfg, k, v)
      suspended_any = True
      if new is cfg and k != 11 and _entries(cfg) != before_hist:
        return False                       # (suspension is per thread: the helper thread of op 11 still records)
    elif sus >= 4 and i == 1:
      new = _misc_op(cfg, k, v)             # after the inner block, still inside the outer suspension
      if new is cfg and k != 11 and _entries(cfg) != before_hist:
        return False
    else:
      new = _misc_op(cfg, k, v)
    if sus >= 4 and i == 1:
      if outer is not None:
        outer.__exit__(None, None, None)
      else:
        history.set_tracking(enabled=True)
    if history.tracking_enabled() != (not (sus >= 4 and i == 0)):
      return False                           # on again after every block - except while the outer suspension lasts
    new_is_same = new is cfg
    if new is not cfg:
      # copy_with: the original's history is untouched, the copy's ends with its current state
      if _entries(cfg) != before_hist:
        return False
      other = cfg
      cfg = new
    if not suspended_any and not ends_with_current(cfg):
      return False
    new_ids = [e.sequence_id for v_ in cfg.__argument_history__.values() for e in v_ if e.sequence_id > max_before]
    for v_ in cfg.__argument_history__.values():
      s = [e.sequence_id for e in v_]
      if any(s[j] >= s[j + 1] for j in range(len(s) - 1)):
        return False
      if not all(_loc_ok(e) for e in v_):
        return False
    if (sus == i + 1 or (sus >= 4 and i <= 1)) and new is cfg and k != 11 and new_ids:
      return False
    other.y = i
    # program order across configurations (and across threads that have finished): every entry written by this step
    # carries a sequence number above everything that existed before the step, and no number occurs twice (entries
    # that a copy shares with its original are the same objects and count once)
    uniq = {}
    for c in (cfg, other):
      for v_ in c.__argument_history__.values():
        for e in v_:
          uniq[id(e)] = e.sequence_id
    after_ids = list(uniq.values())
    if len(set(after_ids)) != len(after_ids):
      return False
    if new_is_same:
      fresh = list(after_ids)
      for old_id in set(ids):
        if old_id in fresh:
          fresh.remove(old_id)
      if any(n <= max_before for n in fresh):
        return False
  note('c16m', k0, k1, k2, sus)
  cleared = serialization.clear_argument_history(cfg)
  return cfg == cleared and canon(cfg) == canon(cleared)


def obligations(tier, seed):
  import random
  rng = random.Random(seed)
  core = c03._core_sigs()
  edits = [c03.SET_NAME, c03.DEL_NAME, c03.SET_IDX, c03.DEL_IDX, c03.SET_SL, c03.DEL_SL]
  wm = {k: ('micro' if k >= c03.GET_SL else 'narrow') for k in range(9)}
  wt = {k: ('tiny' if k >= c03.GET_SL else 'narrow') for k in range(9)}
  if tier == 'quick':
    base, _ = c03._cubes(2, core[:3], ['full', 'alt'], [edits, edits], [wm, wm])
    base2, _ = c03._cubes(2, core[3:6], ['alt'], [[c03.SET_IDX, c03.DEL_SL, c03.SET_SL], [c03.DEL_IDX, c03.SET_SL]], [wm, wm])
    base += base2
    sus_for = lambda j: [j % 5, (j + 3) % 5]
    t = 240
  else:
    base, _ = c03._cubes(2, core, ['full', 'alt'], [edits, edits], [wt, wm])
    sus_for = lambda j: [0, 1, 2, 3, 4]
    t = 900
  cubes = []
  for j, c in enumerate(base):
    fix = dict(c.fix)
    fix.pop('er', None)
    for s in sus_for(j):
      cubes.append(Cube(f'{c.tag}_sus{s}', list(c.pre), dict(fix, sus=s), c.est))
  smoke = dict(c03._SMOKE2)
  smoke.pop('er', None)
  smoke['sig'] = core[0]
  mcubes = [Cube(f'k{a}_{b}_s{s}', [], dict(k0=a, k1=b, sus=s), est=10)
            for a in range(12) for b in range(12) for s in ((a + b) % 6,)]
  if tier != 'quick':
    mcubes = [Cube(f'k{a}_{b}_s{s}', [], dict(k0=a, k1=b, sus=s), est=10)
              for a in range(12) for b in range(12) for s in range(6)]
  return [
      Obligation('c16_ops2', c16_ops2, cubes, timeout=t, path_timeout=30, smoke=dict(smoke, sus=0),
                 extra_smokes=[dict(smoke, sus=s) for s in (1, 2, 3, 4)]),
      Obligation('c16_misc', c16_misc, mcubes, timeout=t, path_timeout=30, smoke=dict(k0=0, k1=7, k2=5, v=3, sus=0),
                 extra_smokes=[dict(k0=a, k1=(a + 3) % 12, k2=(a + 6) % 12, v=3, sus=a % 6) for a in range(12)] + [dict(k0=6, k1=10, k2=10, v=3, sus=0)]),
  ]
