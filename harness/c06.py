"""C06 - == on Buildables is an equivalence relation congruent with build."""
from __future__ import annotations

import copy

import fiddle as fdl

from fvlib import fam, sigs
from fvlib import stubs
from fvlib.canon import canon
from fvlib.notes import note
from fvrun.spec import Cube, Obligation

PROPERTY = 'C06'
stubs.stub_build_message_formatting()
stubs.stub_buildable_repr()
EXPLANATION = (
    'bounded symbolic execution of the real Buildable.__eq__ / _compare_buildable / daglish.iterate with the '
    'defaults-aware registry / PathElement ordering (CrossHair + z3): a 3-node DAG family with solver-enumerated '
    'child targets, cube-selected wrapper kinds and pairs of rewrites (4 equality-preserving, 4 equality-breaking), '
    'symbolic int and str leaves, symbolic int/str dict keys; checks totality, reflexivity, symmetry, transitivity, '
    'the expected verdict per rewrite, and congruence with fdl.build (canonical forms with aliasing)')
ASSUMPTIONS = ['stubs: building._format_arg, Buildable.__repr__ constant', 'NaN-free leaves (ints, short strs)']
OUT_OF_BOUNDS = ['more than 3 nodes', 'leaves with user-defined __eq__', 'NaN']

R_NAMES = ['deepcopy', 'default_explicit', 'dict_reordered', 'other_history', 'leaf_changed', 'callable_swapped',
           'type_swapped', 'alias_redirected']


def _make(t1x, t1y, t2x, t2y, w, lv, ls, reorder=False):
  """3-node member; every node also carries a two-key dict argument z (for dict reordering)."""
  root, nodes = fam.make(3, [(-1, -1), (t1x, t1y), (t2x, t2y)], [(0, 0), (w, w), (w, w)],
                         leaves=[(ls, lv), (lv + 1, lv + 2), (lv + 3, lv + 4)], share=True)
  d = {'b': lv + 5, 'a': [lv + 6]}
  if reorder:
    d = {'a': d['a'], 'b': d['b']}
  nodes[0].z = d
  return root, nodes


def _reachable_nodes(root):
  out = []
  seen = set()

  def walk(x):
    if isinstance(x, fdl.Buildable):
      if id(x) in seen:
        return
      seen.add(id(x))
      out.append(x)
      for v in x.__arguments__.values():
        walk(v)
    elif isinstance(x, dict):
      for v in x.values():
        walk(v)
    elif isinstance(x, (list, tuple)):
      for v in x:
        walk(v)

  walk(root)
  return out


def _replace_ref(container_owner, old, new):
  """Replace the *last* reference to `old` (directly or inside one wrapper) below owner by `new`."""
  done = [False]

  def rebuild(x):
    if done[0]:
      return x
    if x is old:
      done[0] = True
      return new
    if isinstance(x, list):
      return [rebuild(v) for v in reversed(x)][::-1]
    if isinstance(x, tuple) and hasattr(x, '_fields'):
      return type(x)(*[rebuild(v) for v in reversed(x)][::-1])
    if isinstance(x, tuple):
      return tuple([rebuild(v) for v in reversed(x)][::-1])
    if isinstance(x, dict):
      items = [(k, rebuild(v)) for k, v in reversed(list(x.items()))][::-1]
      return dict(items)
    return x

  for key in reversed(list(container_owner.__arguments__)):
    val = container_owner.__arguments__[key]
    new_val = rebuild(val)
    if done[0]:
      setattr(container_owner, key, new_val)
      return True
  return False


def rewrite(r, cfg, lv, applicable):
  """Returns a rewritten deep copy of cfg; sets applicable[0] when the rewrite really changed something."""
  b = copy.deepcopy(cfg)
  nodes = _reachable_nodes(b)
  root = nodes[0]
  applicable[0] = True
  if r == 0:
    pass
  elif r == 1:
    # make a default explicit: root's callable g2(x=None, y=None, *, z=None)
    if 'z' in root.__arguments__:
      applicable[0] = False
    else:
      root.z = None
  elif r == 2:
    tgt = [n for n in nodes if isinstance(n.__arguments__.get('z'), dict)]
    if tgt:
      d = tgt[0].z
      tgt[0].z = dict(reversed(list(d.items())))
    else:
      applicable[0] = False
  elif r == 3:
    old = root.x
    root.x = 12345
    root.x = old
    root.y = root.y
  elif r == 4:
    # change one int leaf to a different value
    tgt = nodes[-1]
    tgt.y = lv - 1000 if not isinstance(tgt.y, int) else tgt.y + 1
  elif r == 5:
    if fdl.get_callable(nodes[-1]) is fam.g5:
      applicable[0] = False
    else:
      fdl.update_callable(nodes[-1], fam.g5)
  elif r == 6:
    if len(nodes) < 2:
      applicable[0] = False
    else:
      inner = nodes[-1]
      other = fdl.cast(fdl.Partial if isinstance(inner, fdl.Config) else fdl.Config, inner)
      # redirect every reference to `inner` to the casted node
      changed = False
      for n in nodes:
        while _replace_ref(n, inner, other):
          changed = True
      applicable[0] = changed
  else:
    # alias redirect: a node referenced twice -> second reference points to an equal copy
    counts = {}
    for n in nodes:
      for m in _direct_children(n):
        counts[id(m)] = counts.get(id(m), 0) + 1
    shared = [n for n in nodes if counts.get(id(n), 0) >= 2]
    if not shared:
      applicable[0] = False
    else:
      s = shared[-1]
      dup = copy.deepcopy(s)
      ok = False
      for n in nodes:
        if _replace_ref(n, s, dup):
          ok = True
          break
      applicable[0] = ok
  return b


def _direct_children(n):
  out = []

  def walk(x):
    if isinstance(x, fdl.Buildable):
      out.append(x)
    elif isinstance(x, dict):
      for v in x.values():
        walk(v)
    elif isinstance(x, (list, tuple)):
      for v in x:
        walk(v)

  for v in n.__arguments__.values():
    walk(v)
  return out


def _eq_all(a, b):
  """(a == b, b == a, a != b) with no exception allowed."""
  return (a == b), (b == a), (a != b)


def c06_rewrites(r1: int, r2: int, w: int, t1x: int, t1y: int, t2x: int, t2y: int, lv: int, ls: str) -> bool:
  """
  require: 0 <= r1 <= 7 and 0 <= r2 <= 7 and 0 <= w <= 5
  require: -1 <= t1x <= 0 and -1 <= t1y <= 0 and -1 <= t2x <= 1 and -1 <= t2y <= 1 and len(ls) <= 2
  """
  def conc(t, hi):
    for c in range(-1, hi):
      if t == c:
        return c
    return -1
  t1x, t1y, t2x, t2y = conc(t1x, 1), conc(t1y, 1), conc(t2x, 2), conc(t2y, 2)
  a, _ = _make(t1x, t1y, t2x, t2y, w, lv, ls)
  ap1, ap2 = [True], [True]
  try:
    if not (a == a) or (a != a):
      return False
    b = rewrite(r1, a, lv, ap1)
    c = rewrite(r2, b, lv, ap2)
    ab, ba, nab = _eq_all(a, b)
    bc, cb, nbc = _eq_all(b, c)
    ac, ca, nac = _eq_all(a, c)
  except Exception:  # pylint: disable=broad-except
    return False       # == must never raise
  note('c06', r1, r2, w, t1x, t1y, t2x, t2y, ap1[0], ap2[0], bool(ab), bool(bc), bool(ac))
  for v in (ab, ba, nab, bc, cb, nbc, ac, ca, nac):
    if type(v) is not bool:
      return False
  # symmetry, != is the negation
  if ab != ba or bc != cb or ac != ca or nab == ab or nbc == bc or nac == ac:
    return False
  # expected verdict per rewrite
  exp1 = (r1 <= 3) or not ap1[0]
  exp2 = (r2 <= 3) or not ap2[0]
  if ab != exp1 or bc != exp2:
    return False
  # transitivity
  if ab and bc and not ac:
    return False
  # congruence with build
  sigs.reset_log()
  ba_ = canon(fdl.build(a))
  bb_ = canon(fdl.build(b))
  if ab and ba_ != bb_:
    return False
  if (r1 == 7 and ap1[0]) and ba_ == bb_:
    return False           # the oracle itself must see the sharing difference
  if ac and ba_ != canon(fdl.build(c)):
    return False
  return True


def c06_keys(pat: int, order: int, i1: int, i2: int, i3: int, s1: str, s2: str, s3: str, v: int) -> bool:
  """
  Dict arguments with keys of mixed types: == is total, reflexive, ignores insertion order.
  Bit j of `pat` makes key j a str (else an int).
  require: 0 <= pat <= 7 and 0 <= order <= 2 and -1 <= i1 <= 1 and -1 <= i2 <= 1 and -1 <= i3 <= 1
  require: s1 in ('', 'a', '0') and s2 in ('', 'a', '1') and s3 in ('', '0', '-1')
  """
  k1 = s1 if pat & 1 else i1
  k2 = s2 if pat & 2 else i2
  k3 = s3 if pat & 4 else i3
  if k1 == k2 or k2 == k3 or k1 == k3:
    return True      # keys must be pairwise distinct (not a case)
  items = [(k1, [v]), (k2, [v + 1]), (k3, fdl.Config(fam.g0, x=v))]
  items_b = [(k1, [v]), (k2, [v + 1]), (k3, fdl.Config(fam.g0, x=v + 7))]   # distinct objects
  perm = [items_b, items_b[::-1], [items_b[1], items_b[2], items_b[0]]][order]
  a = fdl.Config(fam.g1, x=dict(items))
  b = fdl.Config(fam.g1, x=dict(perm))
  b.x[k3].x = v      # same state through a different history
  note('c06k', pat, order)
  try:
    r = (a == a) and (a == b) and (b == a) and not (a != b)
    b.x[k2][0] = v + 2
    r2 = (a == b) or (b == a)
  except Exception:  # pylint: disable=broad-except
    return False
  return r and not r2


def c06_defaults(sig: int, s0: bool, s1: bool, s2: bool, s3: bool, so: bool, e0: bool, e1: bool, e2: bool,
                 e3: bool, eo: bool, nva: int, v: int) -> bool:
  """
  Unset vs explicitly-set-to-default is ignored, for every parameter kind.
  require: 0 <= sig < 324 and 0 <= nva <= 1
  """
  fn, shape = sigs.SIGS[sig]
  F = shape.p + shape.k
  names = [f'p{i}' for i in range(shape.p)] + [f'k{i}' for i in range(shape.k)]
  a = fdl.Config(fn)
  b = fdl.Config(fn)
  setm = [s0, s1, s2, s3][:F]
  expl = [e0, e1, e2, e3][:F]
  for i in range(F):
    has_default = i >= F - shape.d
    if setm[i]:
      a[i] = v + i
      b[i] = v + i
    elif has_default and expl[i]:
      b[i] = 100 + i           # the parameter's own default, made explicit on b only
  if shape.va and nva:
    a[fdl.VARARGS:] = [v]
    b[fdl.VARARGS:] = [v]
  if shape.ko:
    if so:
      a.o0 = v
      b.o0 = v
    elif shape.dk and eo:
      a.o0 = 200               # explicit on a only
  note('c06d', tuple(sorted(map(str, a.__arguments__))), tuple(sorted(map(str, b.__arguments__))))
  try:
    return (a == b) and (b == a) and not (a != b)
  except Exception:  # pylint: disable=broad-except
    return False


def c06_asym(sig: int, a0: int, a1: int, a2: int, a3: int, b0: int, b1: int, b2: int, b3: int, ao: int, bo: int, v: int) -> bool:
  """
  Two configurations of one signature set *different* argument subsets; per parameter each side is 0 = unset,
  1 = explicitly its default (or value v if it has none), 2 = a non-default value: == holds iff every parameter has
  the same effective value on both sides, and it is symmetric.
  require: 0 <= sig < 324 and 0 <= a0 <= 2 and 0 <= a1 <= 2 and 0 <= a2 <= 2 and 0 <= a3 <= 2
  require: 0 <= b0 <= 2 and 0 <= b1 <= 2 and 0 <= b2 <= 2 and 0 <= b3 <= 2 and 0 <= ao <= 2 and 0 <= bo <= 2
  """
  fn, shape = sigs.SIGS[sig]
  F = shape.p + shape.k
  UNSET = ('unset',)

  def conc(t):
    for c in range(3):
      if t == c:
        return c
    return 0

  def side(modes, mo):
    cfg = fdl.Config(fn)
    eff = []
    for i in range(F):
      has_default = i >= F - shape.d
      default = 100 + i if has_default else UNSET
      m = conc(modes[i])
      if m == 0:
        eff.append(default)
      elif m == 1:
        val = default if has_default else v
        cfg[i] = val
        eff.append(val)
      else:
        cfg[i] = v + 7 + i
        eff.append(v + 7 + i)
    if shape.ko:
      default = 200 if shape.dk else UNSET
      m = conc(mo)
      if m == 0:
        eff.append(default)
      elif m == 1:
        val = default if shape.dk else v
        cfg.o0 = val
        eff.append(val)
      else:
        cfg.o0 = v + 3
        eff.append(v + 3)
    return cfg, eff

  a, ea = side([a0, a1, a2, a3], ao)
  b, eb = side([b0, b1, b2, b3], bo)
  want = len(ea) == len(eb)
  for x, y in zip(ea, eb):
    if x is UNSET or y is UNSET:
      if x is not y:
        want = False
    elif x != y:
      want = False
  note('c06a', tuple(sorted(map(str, a.__arguments__))), tuple(sorted(map(str, b.__arguments__))))
  try:
    ab, ba, nab = (a == b), (b == a), (a != b)
  except Exception:  # pylint: disable=broad-except
    return False
  return ab == want and ba == want and nab == (not want)


def _nested_const_tuple():
  """A tuple of constant tuples built at run time (never the compiler's interned constant)."""
  return tuple([tuple([1, 1]), tuple([2, 2]), 'k'])


def _sharing_member(slots, lv, dict_rev, tshare, wrap_b, nk=0):
  """root = g3(x=[q?], y={'k1': q?, 'k2': C(g2, x=q?, y=q?)}, z=(t, q?, t')) over three equal nodes q0..q2.

  `slots` assigns one of the three (value-equal, distinct) nodes to each of the five positions;
  `tshare` makes t' the same object as t (else an equal, distinct nested constant tuple)."""
  if nk == 1:
    q = [{7, 8} for _ in range(3)]                 # opaque to daglish (no traverser), value equality, not internable
  elif nk == 2:
    q = [[lv, (1, 2)] for _ in range(3)]
  else:
    q = [fdl.Config(fam.g0, x=lv, y=[lv]) for _ in range(3)]
  inner = fdl.Config(fam.g2, x=q[slots[2]], y=q[slots[3]])
  items = [('k1', q[slots[1]]), ('k2', inner)]
  if dict_rev:
    items.reverse()
  t = _nested_const_tuple()
  t2 = t if tshare else _nested_const_tuple()
  first = [q[slots[0]]] if wrap_b else q[slots[0]]
  return fdl.Config(fam.g3, x=first, y=dict(items), z=(t, q[slots[4]], t2))


def _same_partition(a, b):
  for i in range(len(a)):
    for j in range(i + 1, len(a)):
      if (a[i] == a[j]) != (b[i] == b[j]):
        return False
  return True


def c06_sharing(x0: int, x1: int, x2: int, x3: int, x4: int, y0: int, y1: int, y2: int, y3: int, y4: int,
                rev: bool, tsx: bool, tsy: bool, wb: bool, nk: int, lv: int) -> bool:
  """
  Two value-equal configurations that differ only in which of three equal nodes sits at each of five positions
  (root list, dict value, nested config twice, tuple): == holds iff the two aliasing patterns are the same
  partition (both patterns range over restricted-growth strings, i.e. one representative per partition - the three
  nodes are built identically, so renaming them is a symmetry), whatever the dict insertion order and whether equal nested constant tuples are one object or two.
  nk: what the three equal objects are - 0 Configs, 1 sets (leaves for daglish), 2 lists.
  require: 0 <= x0 <= 2 and 0 <= x1 <= 2 and 0 <= x2 <= 2 and 0 <= x3 <= 2 and 0 <= x4 <= 2 and 0 <= nk <= 2
  require: y0 == 0 and 0 <= y1 <= 1 and 0 <= y2 <= min(max(y0, y1) + 1, 2) and 0 <= y3 <= min(max(y0, y1, y2) + 1, 2) and 0 <= y4 <= min(max(y0, y1, y2, y3) + 1, 2)
  """
  def conc(t):
    for c in range(3):
      if t == c:
        return c
    return 0
  xs = [conc(v) for v in (x0, x1, x2, x3, x4)]
  ys = [conc(v) for v in (y0, y1, y2, y3, y4)]
  nk = conc(nk)
  a = _sharing_member(xs, lv, False, tsx, wb, nk)
  b = _sharing_member(ys, lv, rev, tsy, wb, nk)
  try:
    ab, ba, nab = _eq_all(a, b)
    inner_ab = (a.y['k2'] == b.y['k2'])
  except Exception:  # pylint: disable=broad-except
    return False
  same = _same_partition(xs, ys)
  note('c06s', tuple(xs), tuple(ys), rev, tsx, tsy, wb, bool(ab))
  if type(ab) is not bool or ab != ba or nab == ab:
    return False
  if ab != same:
    return False
  if ab and not inner_ab:
    return False          # equal configurations have equal sub-configurations
  sigs.reset_log()
  ca, cb = canon(fdl.build(a)), canon(fdl.build(b))
  if (ca == cb) != same:
    return False          # the oracle sees exactly the aliasing pattern; == is congruent with build
  return True


def obligations(tier, seed):
  import random
  rng = random.Random(seed)
  cubes = []
  if tier == 'quick':
    pairs = [(r1, r2) for r1 in range(8) for r2 in range(8) if r1 == 0 or r2 == 0 or r1 == r2 or (r1 + r2) % 3 == 0]
    ws = [1, 3]
    t = 200
  else:
    pairs = [(r1, r2) for r1 in range(8) for r2 in range(8)]
    ws = list(range(6))
    t = 600
  for r1, r2 in pairs:
    for w in ws:
      fix = dict(r1=r1, r2=r2, w=w)
      if r1 != 0 and tier == 'quick':
        fix['ls'] = 's'      # the str leaf stays symbolic in the r1 == 0 cubes (thorough: everywhere)
      cubes.append(Cube(f'r{r1}_{r2}_w{w}', [], fix, est=100 if 'ls' not in fix else 36))
  sigl = list(range(len(sigs.SIGS))) if tier != 'quick' else sorted(rng.sample(range(len(sigs.SIGS)), 100))
  dcubes = [Cube(f's{s}', [], dict(sig=s), est=64) for s in sigl if sigs.SIGS[s][1].d or sigs.SIGS[s][1].dk]
  acubes = []
  for sidx in (sigl if tier != 'quick' else sigl[::5]):
    shp = sigs.SIGS[sidx][1]
    if shp.p + shp.k < 2 or not shp.d:
      continue
    fix = dict(sig=sidx)
    for j in range(shp.p + shp.k, 4):
      fix[f'a{j}'] = 0
      fix[f'b{j}'] = 0
    if not shp.ko:
      fix.update(ao=0, bo=0)
    if tier == 'quick':
      fix.update(a0=1, b0=1)
    free = [k for k in ('a0', 'a1', 'a2', 'a3', 'b0', 'b1', 'b2', 'b3', 'ao', 'bo') if k not in fix]
    if 3 ** len(free) > 3000 and 'a1' in free:
      # too many paths for one cube's time limit: split on the mode of the second parameter
      for m in range(3):
        acubes.append(Cube(f's{sidx}_a{m}', [], dict(fix, a1=m), est=3 ** (len(free) - 1)))
    else:
      acubes.append(Cube(f's{sidx}', [], fix, est=3 ** len(free)))
  kcubes = []
  for p in range(8):
    for o in range(3):
      fix = dict(pat=p, order=o)
      for j in range(3):
        if p & (1 << j):
          fix[f'i{j + 1}'] = 0      # unused: key j is a str
        else:
          fix[f's{j + 1}'] = ''     # unused: key j is an int
      kcubes.append(Cube(f'p{p}_o{o}', [], fix, est=30))
  # aliasing patterns: x ranges over restricted-growth strings (one representative per partition), y over everything
  def rgs(n):
    out = [[0]]
    for _ in range(n - 1):
      out = [p + [v] for p in out for v in range(min(max(p) + 2, 3))]
    return out
  scubes = []
  for xs in rgs(5):
    if tier == 'quick' and (sum(xs) + xs[2]) % 3:
      continue
    fix = dict(x0=xs[0], x1=xs[1], x2=xs[2], x3=xs[3], x4=xs[4])
    if tier == 'quick':
      fix.update(wb=bool(sum(xs) % 2), tsx=bool(xs[1] % 2), nk=(sum(xs) + xs[3]) % 3)
    scubes.append(Cube('x' + ''.join(map(str, xs)), [], fix, est=41 * 4 * (1 if tier == 'quick' else 3)))
  return [
      Obligation('c06_sharing', c06_sharing, scubes, timeout=t, path_timeout=30,
                 smoke=dict(x0=0, x1=1, x2=0, x3=0, x4=1, y0=2, y1=0, y2=2, y3=2, y4=0, rev=True, tsx=True, tsy=False, wb=True, nk=0, lv=4),
                 extra_smokes=[dict(x0=0, x1=1, x2=0, x3=0, x4=1, y0=0, y1=1, y2=1, y3=1, y4=1, rev=False, tsx=False, tsy=True, wb=False, nk=1, lv=4), dict(x0=0, x1=0, x2=1, x3=1, x4=2, y0=0, y1=1, y2=2, y3=2, y4=2, rev=True, tsx=False, tsy=True, wb=True, nk=2, lv=4)]),
      Obligation('c06_rewrites', c06_rewrites, cubes, timeout=t, path_timeout=30,
                 smoke=dict(r1=1, r2=7, w=1, t1x=0, t1y=0, t2x=1, t2y=0, lv=3, ls='a'),
                 extra_smokes=[dict(r1=r, r2=(r + 3) % 8, w=3, t1x=0, t1y=-1, t2x=0, t2y=0, lv=3, ls='') for r in range(8)]),
      Obligation('c06_keys', c06_keys, kcubes, timeout=t, path_timeout=30,
                 smoke=dict(pat=4, order=1, i1=1, i2=2, i3=3, s1='a', s2='b', s3='c', v=1),
                 extra_smokes=[dict(pat=5, order=2, i1=0, i2=0, i3=3, s1='', s2='b', s3='\x00', v=1)]),
      Obligation('c06_asym', c06_asym, acubes, timeout=t, path_timeout=30,
                 smoke=dict(sig=sigs.sig_index(1, 2, 0, 1, 0, 2, 1), a0=1, a1=1, a2=0, a3=0, b0=1, b1=0, b2=2, b3=0, ao=1, bo=0, v=5)),
      Obligation('c06_defaults', c06_defaults, dcubes, timeout=t, path_timeout=30,
                 smoke=dict(sig=sigs.sig_index(1, 1, 1, 1, 0, 1, 1), s0=True, s1=False, s2=False, s3=False, so=False,
                            e0=False, e1=True, e2=False, e3=False, eo=True, nva=1, v=5)),
  ]
