"""C10 - applying build_diff(old, new) to old yields new."""
from __future__ import annotations

import copy

import fiddle as fdl
from fiddle._src import diffing
from fiddle._src import mutate_buildable

from fvlib import fam, sigs
from fvlib import stubs
from fvlib.canon import canon, buildables
from fvlib.notes import note
from fvrun.spec import Cube, Obligation

PROPERTY = 'C10'
stubs.stub_build_message_formatting()
stubs.stub_buildable_repr()
EXPLANATION = (
    'bounded symbolic execution of the real diffing.build_diff (align_heuristically, _DiffFromAlignmentBuilder) and '
    'diffing.apply_diff (resolve_diff_references, _validate_changes, _apply_changes, update_callable, tag operations) '
    'with CrossHair + z3: `old` is a three-node DAG family member (child targets solver-enumerated, six wrapper kinds, '
    'tags, shared containers), `new` is derived by two edits out of 20 kinds (leaf change, callable swap with and '
    'without parameter loss, argument add / remove, tag add / remove, alias created / broken, subtree moved, container '
    'edit, subtree replaced, children swapped, rotation) applied to a deep copy or to a shallow copy that shares '
    'objects with old by identity, or is an unrelated family member; edit kinds and pair mode are cube parameters, '
    'edit positions and shapes symbolic; leaves are concrete (alignment compares every pair of leaves)')
ASSUMPTIONS = ['stubs: building._format_arg, Buildable.__repr__ constant',
               'concrete leaves: the alignment heuristics compare leaves pairwise (and use len(repr(v))), which forks '
               'once per comparison on symbolic values']
OUT_OF_BOUNDS = ['configurations holding positional-only / *args arguments (known finding C10-diff-positional-arguments)',
                 'more than 3 Buildable nodes, more than 2 edits', 'roots of different Buildable types']


class T0(fdl.Tag):
  """t0"""


class T1(fdl.Tag):
  """t1"""


def two(x=None, y=None):
  return sigs.Rec('two', (x, y), (), (), {})


def _conc(v, lo, hi):
  for c in range(lo, hi + 1):
    if v == c:
      return c
  return lo


def _make(t1x, t1y, t2x, t2y, w, off):
  root, nodes = fam.make(3, [(-1, -1), (t1x, t1y), (t2x, t2y)], [(0, 0), (w, w), (w, w)],
                         leaves=[(off + 1, off + 2), (off + 3, off + 4), (off + 5, off + 6)], share=True)
  nodes[0].z = {'a': [off + 7], 'b': off + 8}
  nodes[1].z = ([off + 9], [off + 9], off + 10)      # a tuple holding two equal but distinct lists
  fdl.add_tag(nodes[0], 'x', T0)
  fdl.add_tag(nodes[2], 'z', T1)              # value-less tagged argument on the root
  return root, nodes


EDITS = ['leaf', 'callable_same_sig', 'callable_drops_param', 'arg_add', 'arg_remove', 'tag_add', 'tag_remove',
         'alias_create', 'alias_break', 'move_subtree', 'container_edit', 'replace_subtree', 'swap_children', 'rotate3',
         'tuple_alias_create', 'tuple_elements_swap', 'callable_to_kwargs_keeping_surplus', 'tuple_append',
         'tuple_truncate', 'value_removed_and_tags_changed']
NE = len(EDITS)


def _nodes_of(root):
  return buildables(root)


def _edit(e, root, i, off):
  """Applies edit kind e to `root` (a copy); `i` picks the node. Returns False when the edit has no subject."""
  nodes = _nodes_of(root)
  n = nodes[i % len(nodes)]
  if e == 0:
    n.y = off + 50 + i
  elif e == 1:
    fdl.update_callable(n, fam.g5)
  elif e == 2:
    # new callable lacks `z`: the argument and its tags have to go first
    if 'z' in n.__arguments__:
      del n.z
    fdl.clear_tags(n, 'z')
    fdl.update_callable(n, two)
  elif e == 3:
    if fdl.get_callable(n) is two:
      return False
    n.z = [off + 60, {'k': off + 61}] if 'z' not in n.__arguments__ else off + 62
  elif e == 4:
    if 'y' not in n.__arguments__:
      return False
    del n.y
  elif e == 5:
    fdl.add_tag(n, 'y', T1)
    fdl.add_tag(n, 'x', T1)
  elif e == 6:
    tagged = [(b, k) for b in nodes for k, ts in b.__argument_tags__.items() if ts]
    if not tagged:
      return False
    b, k = tagged[i % len(tagged)]
    fdl.clear_tags(b, k)
  elif e == 7:
    # alias created: the root's y now refers to the last node as well (or to the root's own x value)
    target = nodes[-1] if nodes[-1] is not root else root.x
    root.y = target
  elif e == 8:
    # alias broken: a node referenced more than once gets one reference replaced by an equal copy
    for b in nodes:
      for k in ('x', 'y'):
        v = b.__arguments__.get(k)
        if isinstance(v, fdl.Buildable) and sum(1 for c in nodes for kk in ('x', 'y') if c.__arguments__.get(kk) is v) > 1:
          setattr(b, k, copy.deepcopy(v))
          return True
    return False
  elif e == 9:
    if 'x' not in root.__arguments__ or fdl.get_callable(root) is two:
      return False
    root.z = root.x
    del root.x
  elif e == 10:
    for b in nodes:
      d = b.__arguments__.get('z')
      if isinstance(d, dict):
        d['new'] = off + 70
        if i % 2 and 'b' in d:
          del d['b']
        if isinstance(d.get('a'), list) and d['a']:
          d['a'][0] = off + 71
        return True
    return False
  elif e == 11:
    root.x = fdl.Config(fam.g4, x=off + 80, y=[nodes[-1]] if nodes[-1] is not root else None)
  elif e == 12:
    root.x, root.y = root.y, root.x
  elif e == 13:
    if fdl.get_callable(root) is two:
      return False
    root.x, root.y, root.z = root.__arguments__.get('y'), root.__arguments__.get('z', off + 90), root.x
  elif e == 19:
    # one argument loses its value and changes its tag set in the same step
    tagged = [(b, k) for b in nodes for k, ts in b.__argument_tags__.items() if ts and k in b.__arguments__]
    if not tagged:
      return False
    b, k = tagged[i % len(tagged)]
    delattr(b, k)
    fdl.clear_tags(b, k)
    if i % 2:
      fdl.add_tag(b, k, T1)
  elif e == 16:
    # the new callable takes **kwargs: the argument it has no parameter for stays, as an extra keyword
    if fdl.get_callable(n) is two:
      return False
    if 'z' not in n.__arguments__:
      n.z = off + 63
    # (built without update_callable, which is part of what apply_diff uses and therefore under test)
    m = type(n)(fam.fkw)
    for key, val in n.__arguments__.items():
      setattr(m, key, val)
    for key in list(n.__argument_tags__):
      fdl.set_tags(m, key, fdl.get_tags(n, key))
    mutate_buildable.move_buildable_internals(source=m, destination=n)
  else:
    # an equal tuple whose memoizable elements alias differently (e == 14) or trade places (e == 15); the same tuple
    # with one more element (17) or one less (18)
    for b in nodes:
      t = b.__arguments__.get('z')
      if isinstance(t, tuple) and len(t) == 3 and isinstance(t[0], list):
        b.z = {14: (t[0], t[0], t[2]), 15: (t[1], t[0], t[2]), 17: t + (off + 95,), 18: t[:2]}[e]
        return True
    return False
  return True


def c10_pair(mode: int, e1: int, e2: int, i1: int, i2: int, w: int, t1x: int, t1y: int, t2x: int, t2y: int,
             u1x: int, u2x: int, u2y: int) -> bool:
  """
  mode 0: new = deepcopy(old) + edits; 1: new = shallow copy of old + edits (shares objects with old by identity);
  2: new = an unrelated member (targets u*) + edits.
  require: 0 <= mode <= 5 and 0 <= e1 <= 19 and 0 <= e2 <= 19 and 0 <= i1 <= 2 and 0 <= i2 <= 2 and 0 <= w <= 5
  require: -1 <= t1x <= 0 and -1 <= t1y <= 0 and -1 <= t2x <= 1 and -1 <= t2y <= 1
  require: -1 <= u1x <= 0 and -1 <= u2x <= 1 and -1 <= u2y <= 1
  """
  e1, e2, i1, i2 = _conc(e1, 0, NE - 1), _conc(e2, 0, NE - 1), _conc(i1, 0, 2), _conc(i2, 0, 2)
  t1x, t1y, t2x, t2y = _conc(t1x, -1, 0), _conc(t1y, -1, 0), _conc(t2x, -1, 1), _conc(t2y, -1, 1)
  u1x, u2x, u2y = _conc(u1x, -1, 0), _conc(u2x, -1, 1), _conc(u2y, -1, 1)
  old, _ = _make(t1x, t1y, t2x, t2y, w, 0)
  if mode == 0:
    new = copy.deepcopy(old)
  elif mode == 1:
    new = copy.copy(old)
  elif mode == 2:
    new, _ = _make(u1x, -1, u2x, u2y, (w + 1) % 6, 100)
  elif mode == 3:
    new = fdl.Config(fdl.get_callable(old), x=old, y=[old])        # new wraps old itself (a root shared by identity)
  elif mode == 4:
    kids = [v for v in old.__arguments__.values() if isinstance(v, fdl.Config)]
    if not kids:
      return True
    new = kids[0]                                                   # new is a part of old
  else:
    new = old                                                       # the very same object
  # the first edit always has a subject or says so (returns False); it must not fail
  a1 = _edit(e1, new, i1, 200) if mode <= 2 else False
  try:
    a2 = _edit(e2, new, i2, 300) if mode <= 2 else False
  except (AttributeError, TypeError, KeyError):
    return True          # the second edit has no subject after the first one (e.g. the parameter is gone)
  if mode == 1:
    # edits through the shallow copy may have reached objects shared with `old`: that *is* the pair under test
    pass
  old_before = canon(old)
  new_before = canon(new)
  note('c10', mode, e1, e2, i1, i2, w, t1x, t1y, t2x, t2y, a1, a2)
  try:
    d = diffing.build_diff(old, new)
  except Exception:  # pylint: disable=broad-except
    return False                       # build_diff must succeed for same-type roots
  if canon(old) != old_before or canon(new) != new_before:
    return False
  d_before = canon(d)
  c = copy.deepcopy(old)
  cid = id(c)
  try:
    diffing.apply_diff(d, c)
  except Exception:  # pylint: disable=broad-except
    return False
  if id(c) != cid:
    return False
  if canon(c) != new_before:
    return False
  if canon(d) != d_before or canon(new) != new_before or canon(old) != old_before:
    return False
  return True


def c10_empty(w: int, t1x: int, t1y: int, t2x: int, t2y: int) -> bool:
  """
  The diff between a configuration and its deep copy is empty.
  require: 0 <= w <= 5 and -1 <= t1x <= 0 and -1 <= t1y <= 0 and -1 <= t2x <= 1 and -1 <= t2y <= 1
  """
  t1x, t1y, t2x, t2y = _conc(t1x, -1, 0), _conc(t1y, -1, 0), _conc(t2x, -1, 1), _conc(t2y, -1, 1)
  old, nodes = _make(t1x, t1y, t2x, t2y, _conc(w, 0, 5), 0)
  nodes[0].z['nan'] = float('nan')               # a leaf that is not equal to itself
  nodes[0].y = [float('nan'), (float('nan'),)]
  old.z = (float('nan'), [float('nan')], {'n': float('nan')})
  d = diffing.build_diff(old, copy.deepcopy(old))
  note('c10e', w, t1x, t1y, t2x, t2y)
  return d.changes == () and d.new_shared_values == ()


def c10_positional(kind: int) -> bool:
  """
  Positional-only / *args arguments (known finding: diffing addresses Buildable arguments by Attr only).
  require: 0 <= kind <= 1
  """
  old = fdl.Config(fam.fp, 1, 2, 3, 4, k=5)
  new = fdl.Config(fam.fp, 1, 9, 3, 4, k=5) if kind == 0 else fdl.Config(fam.fp, 1, 2, 3, 4, 6, k=5)
  note('c10p', kind)
  try:
    d = diffing.build_diff(old, new)
    diffing.apply_diff(d, old)
  except Exception:  # pylint: disable=broad-except
    return False
  return canon(old) == canon(new)


def obligations(tier, seed):
  cubes = []
  for mode in range(3):
    for e1 in range(NE):
      for e2 in range(NE):
        if tier == 'quick' and (e1 * NE + e2 + mode) % 5:
          continue
        j = mode + e1 + e2
        fix = dict(mode=mode, e1=e1, e2=e2)
        if mode != 2:
          fix.update(u1x=-1, u2x=-1, u2y=-1)
        if tier == 'quick':
          fix.update(w=j % 6, t1y=-1, i2=j % 3)
          if mode == 2:
            fix.update(t1x=0, t2y=(j % 3) - 1, u1x=-(j % 2))
        cubes.append(Cube(f'm{mode}_e{e1}_{e2}', [], fix, est=54 if mode != 2 else 108))
  if tier != 'quick':
    cubes = [Cube(c.tag + f'_w{w}', c.pre, dict(c.fix, w=w), c.est * 4) for c in cubes for w in range(6)]
  for mode in (3, 4, 5):
    for w in range(6):
      cubes.append(Cube(f'm{mode}_w{w}', [], dict(mode=mode, w=w, e1=0, e2=0, i1=0, i2=0, u1x=-1, u2x=-1, u2y=-1), est=36))
  t = 300 if tier == 'quick' else 900
  smoke = dict(mode=0, e1=0, e2=5, i1=1, i2=2, w=1, t1x=0, t1y=-1, t2x=1, t2y=0, u1x=-1, u2x=-1, u2y=-1)
  return [
      Obligation('c10_pair', c10_pair, cubes, timeout=t, path_timeout=60, smoke=smoke,
                 extra_smokes=[dict(smoke, mode=e % 3, e1=e, e2=(e + 5) % NE, w=e % 6, u2x=0 if e % 3 == 2 else -1) for e in range(NE)] +
                 [dict(smoke, mode=m, e1=0, e2=0) for m in (3, 4, 5)]),
      Obligation('c10_empty', c10_empty, [Cube(f'w{w}', [], dict(w=w)) for w in range(6)], timeout=120, path_timeout=60,
                 smoke=dict(w=1, t1x=0, t1y=-1, t2x=1, t2y=0)),
      Obligation('c10_positional', c10_positional, [Cube(f'k{k}', [], dict(kind=k)) for k in range(2)], timeout=60,
                 smoke=None),
  ]
