"""C03 - attribute, index and slice edits behave like edits to a bound-argument list."""
from __future__ import annotations

import itertools
from typing import Optional

import fiddle as fdl

from fvlib import sigs
from fvlib import stubs
from fvlib.notes import note
from fvlib.refargs import RefArgs, Reject, UNSET
from fvrun.spec import Cube, Obligation

PROPERTY = 'C03'
stubs.stub_buildable_repr()   # Fiddle's AttributeError messages embed {self!r}; see fvlib/stubs.py
EXPLANATION = (
    'bounded symbolic execution of the real Buildable.__getattr__/__setattr__/__delattr__/'
    '__getitem__/__setitem__/__delitem__/ordered_arguments/__dir__ (CrossHair + z3) in lock-step with '
    'the RefArgs reference model: signature shape, initial set-mask, operation kinds and addresses are '
    'solver-enumerated, indices / slice bounds range over [-8, 8] / None, steps over +-1..3 / None, '
    'assigned values are unbounded symbolic ints; all observations compared after every operation')
ASSUMPTIONS = [
    'stub: Buildable.__repr__ returns a constant (it is only reached through error-message formatting here)',
    'reference semantics of DESIGN.md Appendix A (list semantics for the variadic tail, fixed-length prefix)',
    'invalid edits must raise some Exception and leave all observations unchanged; the exception class is not constrained',
    'signatures limited to <=2 positional-only + <=2 positional-or-keyword + *args + 1 keyword-only + **kw',
]
OUT_OF_BOUNDS = ['histories longer than 2 (quick) / 3 (thorough) operations', '|index| > 8, |step| > 3',
                 'signatures outside the catalogue']

NAMES = ['p0', 'p1', 'k0', 'k1', 'o0', 'zz', 'args']
FLAGS16 = [dict(include_var_keyword=a, include_defaults=b, include_unset=c, include_positional=d)
           for a, b, c, d in itertools.product((True, False), repeat=4)]
# The four combinations compared after every operation (all 16 + the include_equal_to_default=False
# variants are compared in c03_flags).
FLAGS4 = [dict(), dict(include_defaults=True, include_unset=True),
          dict(include_var_keyword=False, include_positional=False), dict(include_unset=True)]

GET_NAME, SET_NAME, DEL_NAME, GET_IDX, SET_IDX, DEL_IDX, GET_SL, SET_SL, DEL_SL = range(9)
OPNAMES = ['get_name', 'set_name', 'del_name', 'get_idx', 'set_idx', 'del_idx', 'get_slice', 'set_slice',
           'del_slice']


def _same(a, b):
  """Equality that treats NO_VALUE by identity and everything else by ==, with type agreement."""
  if a is fdl.NO_VALUE or b is fdl.NO_VALUE:
    return a is b
  return a == b


def _same_list(xs, ys):
  if len(xs) != len(ys):
    return False
  for x, y in zip(xs, ys):
    if not _same(x, y):
      return False
  return True


def _same_dict(d, e):
  if list(d.keys()) != list(e.keys()):
    return False
  for k in d:
    if not _same(d[k], e[k]):
      return False
  return True


def observe_equal(cfg, ref: RefArgs, full_flags=False, err_reads=True) -> bool:
  """All reported arguments of cfg agree with the model."""
  view = ref.view()
  got = cfg[:]
  if not isinstance(got, list) or not _same_list(got, view):
    return False
  n = len(view)
  for i in sorted({-(n + 1), -n, -1, 0, n - 1, n}):
    try:
      g = cfg[i]
      gexc = False
    except IndexError:
      gexc = True
    if -n <= i < n:
      if gexc or not _same(g, view[i]):
        return False
    elif not gexc:
      return False
  for name in NAMES:
    try:
      r = ref.get_name(name)
      rexc = False
    except Reject:
      rexc = True
    if rexc and not err_reads:
      # Fiddle's error messages format the whole configuration ({self!r}); with a symbolic
      # value inside, that costs one path per decimal digit count.  Reads the model rejects are
      # therefore only performed when the cube holds concrete values only (er=True).
      continue
    try:
      g = getattr(cfg, name)
      gexc = False
    except (AttributeError, ValueError):
      gexc = True
    if gexc != rexc or (not gexc and not _same(g, r)):
      return False
  for fl in (FLAGS16 if full_flags else FLAGS4):
    if not _same_dict(fdl.ordered_arguments(cfg, **fl), ref.ordered_arguments(**fl)):
      return False
  if full_flags:
    for fl in FLAGS16:
      if fl['include_defaults']:
        try:
          fdl.ordered_arguments(cfg, include_equal_to_default=False, **fl)
          return False
        except ValueError:
          continue
      if not _same_dict(fdl.ordered_arguments(cfg, include_equal_to_default=False, **fl),
                        ref.ordered_arguments(include_equal_to_default=False, **fl)):
        return False
  try:
    names = set(dir(cfg))
  except TypeError:
    return False
  if not ref.dir_names() <= names:
    return False
  return True


NONE, VA = 99, 98   # encodings of None and of the fdl.VARARGS handle in index / slice parameters


def _dec(x, ref, has_va):
  """(value for cfg, value for the model) of an encoded index / slice bound."""
  if x == NONE:
    return None, None
  if x == VA:
    # The handle is only meaningful when the signature has *args; otherwise use the position
    # where *args would start (an ordinary int) on both sides.
    return (fdl.VARARGS if has_va else ref.F), ref.F
  return x, x


op_outcome = []   # concrete bookkeeping for the structural fingerprint only


def apply_op(cfg, ref: RefArgs, op) -> bool:
  """Applies one operation to cfg and to the model; True iff they agree on outcome."""
  k, nm, ix, a, b, c, m, v = op
  has_va = bool(ref.shape.va)
  name = vals = fa = ra = fb = rb = fi = ri = None
  # Only the parameters the operation kind uses are read; the cube binds the rest to constants.
  if k <= DEL_NAME:
    name = NAMES[nm]
  elif k <= DEL_IDX:
    fi, ri = _dec(ix, ref, has_va)
    if fi is None:
      fi = ri = 0
  else:
    fa, ra = _dec(a, ref, has_va)
    fb, rb = _dec(b, ref, has_va)
    c = None if c == NONE else c
    if k == SET_SL:
      vals = [v + j for j in range(m)]
  fexc = rexc = None
  fres = rres = None
  trial = ref.copy()
  try:
    if k == GET_NAME:
      fres = getattr(cfg, name)
    elif k == SET_NAME:
      setattr(cfg, name, v)
    elif k == DEL_NAME:
      delattr(cfg, name)
    elif k == GET_IDX:
      fres = cfg[fi]
    elif k == SET_IDX:
      cfg[fi] = v
    elif k == DEL_IDX:
      del cfg[fi]
    elif k == GET_SL:
      fres = cfg[fa:fb:c]
    elif k == SET_SL:
      cfg[fa:fb:c] = vals
    else:
      del cfg[fa:fb:c]
  except Exception as e:  # pylint: disable=broad-except
    fexc = e
  try:
    if k == GET_NAME:
      rres = trial.get_name(name)
    elif k == SET_NAME:
      trial.set_name(name, v)
    elif k == DEL_NAME:
      trial.del_name(name)
    elif k == GET_IDX:
      rres = trial.get_index(ri)
    elif k == SET_IDX:
      trial.set_index(ri, v)
    elif k == DEL_IDX:
      trial.del_index(ri)
    elif k == GET_SL:
      rres = trial.get_slice(slice(ra, rb, c))
    elif k == SET_SL:
      trial.set_slice(slice(ra, rb, c), vals)
    else:
      trial.del_slice(slice(ra, rb, c))
  except Reject as e:
    rexc = e
  if (fexc is None) != (rexc is None):
    return False
  op_outcome.append('rejected' if rexc is not None else 'applied')
  if rexc is None:
    ref.fixed, ref.var, ref.ko, ref.extra = trial.fixed, trial.var, trial.ko, trial.extra
    if k in (GET_NAME, GET_IDX):
      if not _same(fres, rres):
        return False
    elif k == GET_SL:
      if not isinstance(fres, list) or not _same_list(fres, rres):
        return False
  return True


def make_initial(sig: int, mask, nva: int):
  """mask = (s0, s1, s2, s3, so, sx): which fixed cells / o0 / extra name are initially set."""
  fn, shape = sigs.SIGS[sig]
  ref = RefArgs(shape)
  cfg = fdl.Config(fn)
  for i in range(ref.F):
    if mask[i]:
      cfg[i] = 10 + i
      ref.fixed[i] = 10 + i
  if shape.va and nva:
    cfg[fdl.VARARGS:] = [50 + j for j in range(nva)]
    ref.var = [50 + j for j in range(nva)]
  if shape.ko and mask[4]:
    cfg.o0 = 20
    ref.ko = 20
  if shape.vk and mask[5]:
    cfg.zz = 30
    ref.extra['zz'] = 30
  return cfg, ref


def _fp(cfg, ops, results):
  note('c03', tuple(sorted(map(str, cfg.__arguments__))), tuple(OPNAMES[o[0]] for o in ops), tuple(results))


def run_ops(sig, mask, nva, ops, er=True) -> bool:
  cfg, ref = make_initial(sig, mask, nva)
  if not observe_equal(cfg, ref):
    return False
  del op_outcome[:]
  for op in ops:
    if not apply_op(cfg, ref, op):
      return False
    if not observe_equal(cfg, ref, err_reads=er):
      return False
  _fp(cfg, ops, list(op_outcome))
  return True


_PRE_OP = ('0 <= k{i} <= 8 and 0 <= nm{i} <= 6 and 0 <= m{i} <= 3 and (ix{i} == 98 or -8 <= ix{i} <= 8) and '
           '(a{i} in (98, 99) or -8 <= a{i} <= 8) and (b{i} in (98, 99) or -8 <= b{i} <= 8) and '
           '(c{i} == 99 or (c{i} != 0 and -3 <= c{i} <= 3))')


def c03_ops1(sig: int, er: bool, s0: bool, s1: bool, s2: bool, s3: bool, so: bool, sx: bool, nva: int,
             k0: int, nm0: int, ix0: int, a0: int, b0: int, c0: int, m0: int, v0: int) -> bool:
  """
  One operation from an arbitrary initial state.  (99 = None, 98 = fdl.VARARGS)
  require: 0 <= sig < 324 and 0 <= nva <= 2
  require: 0 <= k0 <= 8 and 0 <= nm0 <= 6 and 0 <= m0 <= 3 and (ix0 == 98 or -8 <= ix0 <= 8)
  require: (a0 in (98, 99) or -8 <= a0 <= 8) and (b0 in (98, 99) or -8 <= b0 <= 8)
  require: c0 == 99 or (c0 != 0 and -3 <= c0 <= 3)
  """
  return run_ops(sig, (s0, s1, s2, s3, so, sx), nva, [(k0, nm0, ix0, a0, b0, c0, m0, v0)], er)


def c03_ops2(sig: int, er: bool, s0: bool, s1: bool, s2: bool, s3: bool, so: bool, sx: bool, nva: int,
             k0: int, nm0: int, ix0: int, a0: int, b0: int, c0: int, m0: int, v0: int,
             k1: int, nm1: int, ix1: int, a1: int, b1: int, c1: int, m1: int, v1: int) -> bool:
  """
  Two operations in sequence.
  require: 0 <= sig < 324 and 0 <= nva <= 2
  require: 0 <= k0 <= 8 and 0 <= nm0 <= 6 and 0 <= m0 <= 3 and (ix0 == 98 or -8 <= ix0 <= 8)
  require: (a0 in (98, 99) or -8 <= a0 <= 8) and (b0 in (98, 99) or -8 <= b0 <= 8)
  require: c0 == 99 or (c0 != 0 and -3 <= c0 <= 3)
  require: 0 <= k1 <= 8 and 0 <= nm1 <= 6 and 0 <= m1 <= 3 and (ix1 == 98 or -8 <= ix1 <= 8)
  require: (a1 in (98, 99) or -8 <= a1 <= 8) and (b1 in (98, 99) or -8 <= b1 <= 8)
  require: c1 == 99 or (c1 != 0 and -3 <= c1 <= 3)
  """
  return run_ops(sig, (s0, s1, s2, s3, so, sx), nva, [(k0, nm0, ix0, a0, b0, c0, m0, v0),
                                                     (k1, nm1, ix1, a1, b1, c1, m1, v1)], er)


def c03_ops3(sig: int, er: bool, s0: bool, s1: bool, s2: bool, s3: bool, so: bool, sx: bool, nva: int,
             k0: int, nm0: int, ix0: int, a0: int, b0: int, c0: int, m0: int, v0: int,
             k1: int, nm1: int, ix1: int, a1: int, b1: int, c1: int, m1: int, v1: int,
             k2: int, nm2: int, ix2: int, a2: int, b2: int, c2: int, m2: int, v2: int) -> bool:
  """
  Three operations in sequence.
  require: 0 <= sig < 324 and 0 <= nva <= 2
  require: 0 <= k0 <= 8 and 0 <= nm0 <= 6 and 0 <= m0 <= 3 and (ix0 == 98 or -8 <= ix0 <= 8)
  require: (a0 in (98, 99) or -8 <= a0 <= 8) and (b0 in (98, 99) or -8 <= b0 <= 8)
  require: c0 == 99 or (c0 != 0 and -3 <= c0 <= 3)
  require: 0 <= k1 <= 8 and 0 <= nm1 <= 6 and 0 <= m1 <= 3 and (ix1 == 98 or -8 <= ix1 <= 8)
  require: (a1 in (98, 99) or -8 <= a1 <= 8) and (b1 in (98, 99) or -8 <= b1 <= 8)
  require: c1 == 99 or (c1 != 0 and -3 <= c1 <= 3)
  require: 0 <= k2 <= 8 and 0 <= nm2 <= 6 and 0 <= m2 <= 3 and (ix2 == 98 or -8 <= ix2 <= 8)
  require: (a2 in (98, 99) or -8 <= a2 <= 8) and (b2 in (98, 99) or -8 <= b2 <= 8)
  require: c2 == 99 or (c2 != 0 and -3 <= c2 <= 3)
  """
  return run_ops(sig, (s0, s1, s2, s3, so, sx), nva, [(k0, nm0, ix0, a0, b0, c0, m0, v0),
                                                     (k1, nm1, ix1, a1, b1, c1, m1, v1),
                                                     (k2, nm2, ix2, a2, b2, c2, m2, v2)], er)


def c03_flags(sig: int, s0: bool, s1: bool, s2: bool, s3: bool, so: bool, sx: bool, nva: int, w0: int, w1: int, w2: int, w3: int, wo: int) -> bool:
  """
  require: 0 <= sig < 324 and 0 <= nva <= 2
  """
  # ordered_arguments under every legal flag combination, values symbolic (may equal defaults).
  fn, shape = sigs.SIGS[sig]
  ref = RefArgs(shape)
  cfg = fdl.Config(fn)
  ws = [w0, w1, w2, w3]
  mask = (s0, s1, s2, s3, so, sx)
  for i in range(ref.F):
    if mask[i]:
      cfg[i] = ws[i]
      ref.fixed[i] = ws[i]
  if shape.va and nva:
    cfg[fdl.VARARGS:] = [50 + j for j in range(nva)]
    ref.var = [50 + j for j in range(nva)]
  if shape.ko and mask[4]:
    cfg.o0 = wo
    ref.ko = wo
  ok = observe_equal(cfg, ref, full_flags=True, err_reads=False)
  note('c03f', tuple(sorted(map(str, cfg.__arguments__))))
  return ok


_SMOKE1 = dict(sig=0, er=True, s0=True, s1=True, s2=False, s3=False, so=False, sx=False, nva=1,
               k0=4, nm0=2, ix0=0, a0=99, b0=99, c0=99, m0=1, v0=5)
_SMOKE2 = dict(_SMOKE1, k1=8, nm1=0, ix1=1, a1=1, b1=99, c1=99, m1=0, v1=7)
_SMOKE3 = dict(_SMOKE2, k2=7, nm2=0, ix2=1, a2=98, b2=99, c2=99, m2=2, v2=9)


def _core_sigs():
  S = sigs.sig_index
  return [S(2, 1, 1, 1, 1, 1, 1), S(2, 1, 0, 0, 0, 1), S(1, 2, 1, 0, 0, 2), S(0, 2, 0, 1, 1, 0, 0),
          S(2, 2, 1, 0, 1, 4), S(0, 0, 1, 0, 0, 0), S(1, 0, 0, 0, 1, 0), S(2, 2, 0, 1, 0, 2, 1)]


def _inits(shape, which):
  """Representative initial states: (s0, s1, s2, s3, so, sx, nva)."""
  va = 1 if shape.va else 0
  full = dict(s0=True, s1=True, s2=True, s3=True, so=True, sx=True, nva=2 * va)
  empty = dict(s0=False, s1=False, s2=False, s3=False, so=False, sx=False, nva=0)
  alt = dict(s0=False, s1=True, s2=False, s3=True, so=True, sx=False, nva=1 * va)
  alt2 = dict(s0=True, s1=False, s2=True, s3=False, so=False, sx=True, nva=2 * va)
  return [dict(full=full, empty=empty, alt=alt, alt2=alt2)[w] for w in which]


def _op_cube(i, k, n, width):
  """(fix, pre, estimated paths) binding the parameters operation kind k does not read.

  width: 'full' -> indices / bounds in [-(n+1), n+1]; 'narrow' / 'tiny' -> small fixed sets."""
  fix = {f'k{i}': k, f'nm{i}': 0, f'ix{i}': 0, f'a{i}': 99, f'b{i}': 99, f'c{i}': 99, f'm{i}': 0, f'v{i}': 0}
  pre = []
  est = 1
  if k <= DEL_NAME:
    del fix[f'nm{i}']
    est = 7
  elif k <= DEL_IDX:
    del fix[f'ix{i}']
    if width == 'full':
      pre.append(f'ix{i} == 98 or {-(n + 1)} <= ix{i} <= {n + 1}')
      est = 2 * n + 4
    else:
      pre.append(f'ix{i} in (98, -1, 0, 1, {n - 1}, {n}, {-n}, {-n - 1})')
      est = 8
  else:
    for x in 'abc':
      del fix[f'{x}{i}']
    if width == 'full':
      pre.append(f'(a{i} in (98, 99) or {-(n + 1)} <= a{i} <= {n + 1}) and '
                 f'(b{i} in (98, 99) or {-(n + 1)} <= b{i} <= {n + 1})')
      est = (2 * n + 5) ** 2 * 7
    elif width == 'narrow':
      pre.append(f'a{i} in (98, 99, -2, -1, 0, 1, 2) and b{i} in (98, 99, -2, -1, 0, 1, {n})')
      pre.append(f'c{i} in (99, -1, 2, -2)')
      est = 7 * 7 * 4
    elif width == 'tiny':
      pre.append(f'a{i} in (98, 99, -1) and b{i} in (98, 99, {n})')
      pre.append(f'c{i} in (99, -1)')
      est = 3 * 3 * 2
    else:  # micro
      fix[f'b{i}'] = 99
      pre.append(f'a{i} in (98, -1) and c{i} in (99, -1)')
      est = 4
    if k == SET_SL:
      del fix[f'm{i}']
      if width in ('tiny', 'micro'):
        pre.append(f'm{i} in (0, 2)')
        est *= 2
      else:
        est *= 4
  if k in (SET_NAME, SET_IDX, SET_SL):
    del fix[f'v{i}']      # assigned values: unbounded symbolic ints
  return fix, pre, est


def _cubes(nops, sig_list, init_names, kinds_per_op, widths):
  cubes = []
  total = 0
  for s in sig_list:
    shape = sigs.SIGS[s][1]
    for w, init in zip(init_names, _inits(shape, init_names)):
      n = shape.p + shape.k + init['nva'] + (2 if nops > 1 else 0)
      for ks in itertools.product(*kinds_per_op):
        fix = dict(init, sig=s)
        pre = []
        est = 1
        for i, k in enumerate(ks):
          f, p, e = _op_cube(i, k, n, widths[i] if not isinstance(widths[i], dict) else widths[i][k])
          fix.update(f)
          pre += p
          est *= e
        total += est
        tag = f's{s}_{w}_' + '_'.join(OPNAMES[k] for k in ks)
        cubes.append(Cube(tag, pre, dict(fix, er=True), est))
  return cubes, total


def obligations(tier, seed):
  import random
  rng = random.Random(seed)
  core = _core_sigs()
  _SMOKE1['sig'] = _SMOKE2['sig'] = _SMOKE3['sig'] = core[0]
  others = [i for i in range(len(sigs.SIGS)) if i not in core]
  allk = list(range(9))
  nonslice = [k for k in allk if k < GET_SL]
  slices = [GET_SL, SET_SL, DEL_SL]
  edits = [SET_NAME, DEL_NAME, SET_IDX, DEL_IDX, SET_SL, DEL_SL]
  obs = []
  wt = {k: ('tiny' if k >= GET_SL else 'narrow') for k in allk}
  wm = {k: ('micro' if k >= GET_SL else 'narrow') for k in allk}
  if tier == 'quick':
    extra = rng.sample(others, 6)
    c1a, _ = _cubes(1, core + extra, ['full', 'empty', 'alt'], [nonslice], ['full'])
    c1b, _ = _cubes(1, core, ['full', 'alt'], [[GET_SL, DEL_SL]], ['narrow'])
    c1c, _ = _cubes(1, core, ['full', 'alt'], [[SET_SL]], ['tiny'])
    # slice assignment with every small start / stop / step / length combination (empty slices inside the fixed prefix
    # included) on two signatures with *args
    c1e, _ = _cubes(1, [core[0], core[2]], ['full', 'alt'], [[SET_SL]], ['narrow'])
    c1b += c1c + c1e
    c2, _ = _cubes(2, [core[0]], ['full'], [edits, edits], [wm, wm])
    c2b, _ = _cubes(2, [core[2]], ['alt'], [[SET_IDX, DEL_IDX, DEL_SL, SET_NAME], [SET_IDX, DEL_IDX, SET_SL]],
                    [wm, wm])
    c2 += c2b
    c3 = []
    t = 240
  else:
    extra = rng.sample(others, 12)
    c1a, _ = _cubes(1, core + extra, ['full', 'empty', 'alt', 'alt2'], [nonslice], ['full'])
    c1b, _ = _cubes(1, core, ['full', 'alt'], [[GET_SL, DEL_SL]], ['full'])
    c1c, _ = _cubes(1, core[:3], ['full', 'alt'], [[SET_SL]], ['full'])
    c1d, _ = _cubes(1, core[3:] + extra, ['full', 'alt'], [slices], ['narrow'])
    c1b += c1c + c1d
    c2, _ = _cubes(2, core[:2], ['full', 'alt'], [edits, edits], [wt, wm])
    c2b, _ = _cubes(2, core[2:5], ['alt'], [edits, edits], [wm, wm])
    c2 += c2b
    c3, _ = _cubes(3, [core[0]], ['full'], [[SET_IDX, DEL_IDX, SET_SL, DEL_SL]] * 3, [wm] * 3)
    t = 1500
  obs.append(Obligation('c03_ops1', c03_ops1, c1a + c1b + c1c, timeout=t, path_timeout=30, smoke=dict(_SMOKE1),
                        bounds_note='one operation; per-cube index/slice ranges are in the cube preconditions'))
  obs.append(Obligation('c03_ops2', c03_ops2, c2, timeout=t, path_timeout=30, smoke=dict(_SMOKE2)))
  if c3:
    obs.append(Obligation('c03_ops3', c03_ops3, c3, timeout=t, path_timeout=30, smoke=dict(_SMOKE3)))
  fsigs = core + extra[:8]
  cubesf = [Cube(f's{s}_{w}', [], dict(init, sig=s, sx=False))
            for s in fsigs for w, init in zip(['full', 'alt'], _inits(sigs.SIGS[s][1], ['full', 'alt']))]
  obs.append(Obligation('c03_flags', c03_flags, cubesf, timeout=t, path_timeout=30,
                        smoke=dict(sig=core[0], s0=True, s1=True, s2=False, s3=False, so=True, sx=False, nva=1,
                                   w0=1, w1=2, w2=3, w3=4, wo=5)))
  return obs
