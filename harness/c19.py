"""C19 - threads working on different configurations do not interfere."""
from __future__ import annotations

import ast
import inspect
import os
import threading
import time

from fvrun.spec import Cube, DirectResult, Obligation

PROPERTY = 'C19'
LEVEL = 'model_checking'
EXPLANATION = (
    'bounded model checking with a symbolic schedule (Engine B3): the functions that touch Fiddle\'s module-level state '
    '(building._in_build / _BuildGuardState, history._TrackingState / suspend_tracking / set_tracking / tracking_enabled / '
    'History.add_new_value / new_value / the sequence counter, signatures.get_signature / _signature_cache) are read from '
    'the current source with ast and compiled into micro-operations with one shared-memory access each; per-thread vs '
    'shared is read from the class bases (threading.local), atomicity of the counter from its initialiser '
    '(itertools.count).  2 (thorough: 3) threads running short programs are unrolled for K = total program length steps '
    'with the scheduled thread of every step a z3 variable; the negated property (some thread observes something else '
    'than it observes alone: spurious nested-build error, nested build accepted, missing / extra history entry, tracking '
    'flag not restored, sequence ids not increasing within a thread or duplicated across threads, a signature belonging '
    'to another callable) must be unsat')
ASSUMPTIONS = [
    'everything the threads do outside these functions (deepcopy, dump_json, traversal, edits of their own configuration) '
    'touches only thread-private objects; checked per run by listing every module-level name of fiddle/_src that is rebound '
    'under `global` or is a module-level container / cache, and requiring each to be classified',
    'a single dict / WeakKeyDictionary operation and next() on an itertools.count are atomic under the GIL; free-threaded '
    'builds are out of scope',
    '_get_signature_uncached(fn) is a thread-private computation whose value is a function of fn (uninterpreted: sig(fn))',
]
OUT_OF_BOUNDS = ['more than 3 threads', 'programs longer than the listed ones', 'line-granular interleavings inside thread-private code',
                 'history._exclude_locations / _location_provider (process-wide by design, not among the programs)']
FUNCTIONS_ENCODED = ['building.py:_in_build', 'building.py:_BuildGuardState', 'history.py:_TrackingState',
                     'history.py:suspend_tracking', 'history.py:set_tracking', 'history.py:tracking_enabled',
                     'history.py:History.add_new_value', 'history.py:new_value', 'history.py:_set_counter',
                     'signatures.py:get_signature', 'signatures.py:_signature_cache', 'signatures.py:get_type_hints',
                     'daglish.py:MemoizedTraversal.apply']

F_TOK, G_TOK, LEAF_TOK = 100, 101, 102


def _repo():
  return os.environ.get('FIDDLE_VERIF_REPO', '/repo')


def _mods():
  from engines import b3
  r = _repo() + '/fiddle/_src/'
  mods = {'building': b3.Mod(r + 'building.py', 'building'), 'history': b3.Mod(r + 'history.py', 'history'),
          'signatures': b3.Mod(r + 'signatures.py', 'signatures'), 'daglish': b3.Mod(r + 'daglish.py', 'daglish')}
  # every traversal (fdl.build, iterate, select ...) creates its own MemoizedTraversal: one instance per thread; which of
  # its dicts live on the instance and which on the class is read from the class body
  mods['daglish'].add_instance('$trav', 'MemoizedTraversal', per_thread=True)
  return mods


# ----------------------------------------------------------------------------- thread programs

def _compile(program, mods):
  """program: list of steps; returns (ops, locs, thread_local)."""
  from engines import b3
  c = b3.Compiler(mods, [F_TOK, G_TOK, LEAF_TOK])
  h, bld, sg = mods['history'], mods['building'], mods['signatures']

  def edit():
    fn = h.method('History', 'add_new_value')
    c.inline(fn, [('const', b3.NONE), ('const', 7), ('const', 8)], {}, h, fn.lineno)

  def run(steps):
    for st in steps:
      kind = st[0]
      if kind == 'edit':
        edit()
      elif kind == 'local':
        for _ in range(st[1]):
          c.emit('local', 0)
      elif kind == 'build':
        c.with_(bld, '_in_build', lambda body=st[1]: run(body))
      elif kind == 'nested_build_attempt':
        # try: with _in_build(): <accepted>  except ValueError: <rejected>
        pending = []
        c.handlers.append({'except': [(['ValueError'], pending)], 'env': {}, 'mod': bld})
        c.with_(bld, '_in_build', lambda: c.emit('obs', 'nested', ('const', 0), 0))
        c.handlers.pop()
        j = c.emit('jmp', None, 0)
        for p in pending:
          c.ops[p][1] = c.here()
        c.emit('obs', 'nested', ('const', 1), 0)
        c.ops[j][1] = c.here()
      elif kind == 'suspend':
        c.with_(h, 'suspend_tracking', lambda body=st[1]: run(body))
      elif kind == 'set_tracking':
        c.inline(h.funcs['set_tracking'], [], {'enabled': ('const', 1 if st[1] else 0)}, h, 0)
      elif kind == 'signature':
        r = c.inline(sg.funcs['get_signature'], [('const', st[1])], {}, sg, 0)
        c.emit('obs', st[2], r, 0)
      elif kind == 'read_flags':
        r = c.inline(h.funcs['tracking_enabled'], [], {}, h, 0)
        c.emit('obs', 'enabled', r, 0)
      elif kind == 'hints':
        r = c.inline(sg.funcs['get_type_hints'], [('const', st[1])], {'include_extras': ('const', 1)}, sg, 0)
        c.emit('obs', st[2], r, 0)
      elif kind == 'traverse':
        dg = mods['daglish']
        c.inline(dg.method('MemoizedTraversal', 'apply'), [('global', '$trav'), ('const', st[1]), ('const', 0)], {}, dg, 0)
      else:
        raise b3.Unsupported(kind)

  run(program)
  c.emit('ret', 0)
  return b3.compress(b3.finalize(c.ops)), c.locs, c.thread_local


PROGRAMS = {
    'build': [('build', [('local', 2)]), ('read_flags',)],
    'build_nested': [('build', [('local', 1), ('nested_build_attempt',), ('local', 1)])],
    'edit2': [('edit',), ('edit',), ('read_flags',)],
    'suspend_edit': [('suspend', [('edit',)]), ('edit',), ('read_flags',)],
    'nested_suspend': [('suspend', [('suspend', [('edit',)]), ('edit',)]), ('edit',), ('read_flags',)],
    'tracking_off_on': [('set_tracking', False), ('edit',), ('set_tracking', True), ('edit',), ('read_flags',)],
    'sig_f': [('signature', F_TOK, 'sig1'), ('signature', F_TOK, 'sig2')],
    'sig_g': [('signature', G_TOK, 'sig1')],
    'sig_fg': [('signature', F_TOK, 'sig1'), ('signature', G_TOK, 'sig2')],
    'edit_sig': [('edit',), ('signature', F_TOK, 'sig1'), ('edit',)],
    # a memoized traversal reaching a leaf object that both threads' (disjoint) configurations contain: CPython shares
    # small ints, interned strings and None between unrelated structures
    'traverse_leaf': [('traverse', LEAF_TOK), ('read_flags',)],
    # first-time type-hint lookups (tags come from Annotated hints): the same callable from two threads
    'hints_f': [('hints', F_TOK, 'h1')],
    'hints_fg': [('hints', G_TOK, 'h1'), ('hints', F_TOK, 'h2')],
}

QUICK_SYSTEMS = [('build', 'build'), ('build_nested', 'build'), ('build_nested', 'build_nested'), ('edit2', 'edit2'),
                 ('suspend_edit', 'edit2'), ('suspend_edit', 'suspend_edit'), ('nested_suspend', 'edit2'),
                 ('tracking_off_on', 'edit2'), ('tracking_off_on', 'suspend_edit'), ('suspend_edit', 'nested_suspend'), ('tracking_off_on', 'nested_suspend'),
                 ('sig_f', 'sig_g'), ('sig_fg', 'sig_g'),
                 ('sig_f', 'sig_f'), ('edit_sig', 'sig_g'), ('build', 'suspend_edit'), ('traverse_leaf', 'traverse_leaf'),
                 ('traverse_leaf', 'build'), ('hints_f', 'hints_f'), ('hints_f', 'hints_fg')]
THOROUGH_EXTRA = [('build', 'build', 'build'), ('suspend_edit', 'edit2', 'edit2'), ('sig_f', 'sig_g', 'sig_fg'),
                  ('tracking_off_on', 'suspend_edit', 'edit2'), ('build_nested', 'build', 'suspend_edit'),
                  ('nested_suspend', 'nested_suspend'), ('edit_sig', 'edit_sig'), ('tracking_off_on', 'tracking_off_on')]


# ----------------------------------------------------------------------------- the same programs on the real code

def _real_run(program, callables, cfg=None):
  """Executes a thread program sequentially against the real Fiddle; returns the observation dict of the model."""
  import fiddle as fdl
  from fiddle import history
  from fiddle._src import signatures
  obs = {'err': 0, 'nev': 0}
  cfg = cfg if cfg is not None else fdl.Config(callables['cfgfn'])
  base = sum(len(v) for v in cfg.__argument_history__.values())

  def nested_attempt(x=None):
    try:
      fdl.build(fdl.Config(callables['leaf']))
      obs['nested'] = 0
    except ValueError:
      obs['nested'] = 1
    return x

  def run(steps):
    for st in steps:
      k = st[0]
      if k == 'edit':
        cfg.x = object()
      elif k == 'local':
        pass
      elif k == 'build':
        inner = st[1]
        if any(s[0] == 'nested_build_attempt' for s in inner):
          fdl.build(fdl.Config(nested_attempt, 1))
        else:
          fdl.build(fdl.Config(callables['leaf']))
      elif k == 'suspend':
        with history.suspend_tracking():
          run(st[1])
      elif k == 'set_tracking':
        history.set_tracking(enabled=st[1])
      elif k == 'signature':
        fn = callables[st[1]]
        sig = signatures.get_signature(fn)
        tok = [t for t, f in callables.items() if isinstance(t, int) and sig == inspect.signature(f)]
        obs[st[2]] = 1000 + (st[1] if st[1] in tok else (tok[0] if tok else 0))
      elif k == 'read_flags':
        obs['enabled'] = 1 if history.tracking_enabled() else 0
      elif k == 'hints':
        import typing
        fn = callables[st[1]]
        got = signatures.get_type_hints(fn, include_extras=True)
        obs[st[2]] = 1000 + st[1] if got == typing.get_type_hints(fn, include_extras=True) and got else 0
      elif k == 'traverse':
        from fiddle import daglish
        leaf = 3                                # the same object in every thread (small ints are shared)
        trav = daglish.MemoizedTraversal(traversal_fn=lambda v, s: v, root_obj=leaf)
        trav.apply(leaf, trav.initial_state())
  try:
    run(program)
  except Exception:  # pylint: disable=broad-except
    obs['err'] = 1
  finally:
    history.set_tracking(enabled=True)
  obs['nev'] = sum(len(v) for v in cfg.__argument_history__.values()) - base
  ids = [e.sequence_id for v in cfg.__argument_history__.values() for e in v]
  obs['increasing'] = all(a < b for a, b in zip(ids, ids[1:]))
  obs['ids'] = ids
  return obs


def _fresh_callables():
  def f(a: int, b: float = 1):
    return (a, b)

  def g(c: str, *, d: int = 2):
    return (c, d)

  def leaf():
    return 1

  def cfgfn(x=None):
    return x
  return {F_TOK: f, G_TOK: g, 'leaf': leaf, 'cfgfn': cfgfn}


# ----------------------------------------------------------------------------- shared-state inventory

def _shared_state_inventory():
  """Module-level names of fiddle/_src that functions rebind (`global`) or that are module-level mutable containers."""
  root = _repo() + '/fiddle/_src'
  found = {}
  for dirpath, _, files in os.walk(root):
    for fn in files:
      if not fn.endswith('.py') or fn.endswith('_test.py') or '/testing' in dirpath or '/testdata' in dirpath:
        continue
      path = os.path.join(dirpath, fn)
      try:
        tree = ast.parse(open(path).read())
      except SyntaxError:
        continue
      rel = os.path.relpath(path, root)
      for node in ast.walk(tree):
        if isinstance(node, ast.Global):
          for n in node.names:
            found[f'{rel}:{n}'] = 'rebound under `global`'
      # a store to a class attribute made from inside a function (`type(self).x = ...`, `self.__class__.x = ...`,
      # `cls.x = ...`): one cell for all instances and threads although the code reads like per-object state (C19-m7)
      for fn_node in ast.walk(tree):
        if not isinstance(fn_node, (ast.FunctionDef, ast.AsyncFunctionDef)):
          continue
        for node in ast.walk(fn_node):
          tgts = []
          if isinstance(node, ast.Assign):
            tgts = node.targets
          elif isinstance(node, (ast.AugAssign, ast.AnnAssign)):
            tgts = [node.target]
          for t in tgts:
            if isinstance(t, ast.Attribute) and ast.unparse(t.value) in ('type(self)', 'self.__class__', 'cls'):
              found[f'{rel}:{fn_node.name}:{ast.unparse(t)}'] = 'class attribute stored from inside a function'
      for cls in ast.walk(tree):
        if not isinstance(cls, ast.ClassDef):
          continue
        for node in cls.body:
          tgt = val = None
          if isinstance(node, ast.Assign) and isinstance(node.targets[0], ast.Name):
            tgt, val = node.targets[0].id, node.value
          elif isinstance(node, ast.AnnAssign) and isinstance(node.target, ast.Name) and node.value is not None:
            tgt, val = node.target.id, node.value
          if tgt is None:
            continue
          if isinstance(val, (ast.Dict, ast.List, ast.Set)) or (isinstance(val, ast.Call) and ast.unparse(val.func) in (
              'dict', 'list', 'set', 'collections.defaultdict', 'weakref.WeakKeyDictionary', 'collections.OrderedDict',
              'itertools.count')):
            found[f'{rel}:{cls.name}.{tgt}'] = 'class-level mutable container (one object for all instances and threads)'
      for node in tree.body:
        if isinstance(node, ast.Assign) and len(node.targets) == 1 and isinstance(node.targets[0], ast.Name):
          v = node.value
          name = node.targets[0].id
          if isinstance(v, ast.Call):
            f = ast.unparse(v.func)
            if f in ('weakref.WeakKeyDictionary', 'weakref.WeakValueDictionary', 'itertools.count', 'threading.local',
                     'collections.defaultdict', 'dict', 'set', 'list'):
              found[f'{rel}:{name}'] = f
          elif isinstance(v, (ast.Dict, ast.Set, ast.List)) and name.startswith('_') and not name.isupper():
            found[f'{rel}:{name}'] = 'module-level container literal'
  return found


# names that are understood; anything else on the inventory makes the obligation inconclusive
CLASSIFIED = {
    'history.py:_set_counter': 'modelled (atomic counter)',
    'signatures.py:_signature_cache': 'modelled (lookup / compute / store)',
    'signatures.py:_type_hints_cache': 'modelled (hints programs)',
    'history.py:_exclude_locations': 'process-wide by design (add_exclude_location); not among the programs',
    'history.py:_location_provider': 'process-wide by design (custom_location); not among the programs',
    'daglish_extensions.py:_IMMUTABLE_OBJECT_IDS': 'registry written by explicit registration calls only',
    'daglish_extensions.py:_FUNCTIONS_WITH_IMMUTABLE_RETURN_VALUES': 'registry written by explicit registration calls only',
    'codegen/auto_config/experimental_top_level_api.py:CodegenPass.PASS_INPUT_KWARGS': 'constant list, never mutated',
    'codegen/auto_config/experimental_top_level_api.py:TransformSubFixtures.PASS_INPUT_KWARGS': 'constant list, never mutated',
    'daglish.py:MemoizedTraversal._cycle_start': 'modelled when present (traverse_leaf programs)',
}


# ----------------------------------------------------------------------------- obligations

def _negated_property(z3, fin, K, sysm, alone):
  bad = []
  for i, ob in enumerate(alone):
    bad.append(fin['err'][i] != ob['err'])
    bad.append(fin['nev'][i] != ob['nev'])
    for key, val in ob.items():
      if key in ('err', 'nev'):
        continue
      if key.startswith('final:'):
        loc = tuple(None if p == 'None' else p for p in key[len('final:'):].split('.'))
        loc = [l for l in sysm.locs if '.'.join(map(str, l)) == key[len('final:'):]][0]
        bad.append(fin[loc][i] != val)
      else:
        bad.append(fin[('obs', key)][i] != val)
    # sequence ids strictly increasing within the thread
    for j in range(3):
      bad.append(z3.And(fin['nev'][i] > j + 1, fin['seq'][i][j] >= fin['seq'][i][j + 1]))
  # ... and unique across threads
  for i in range(sysm.T):
    for i2 in range(i + 1, sysm.T):
      for j in range(4):
        for j2 in range(4):
          bad.append(z3.And(fin['nev'][i] > j, fin['nev'][i2] > j2, fin['seq'][i][j] == fin['seq'][i2][j2]))
  return z3.Or(bad)


def run_bmc(tier='quick'):
  import z3
  from engines import b3
  results = []
  t0 = time.time()
  try:
    mods = _mods()
    compiled = {name: _compile(prog, mods) for name, prog in PROGRAMS.items()}
  except b3.Unsupported as e:
    return [DirectResult('translate', 'inconclusive', f'construct outside the supported subset: {e}')]
  except Exception as e:  # pylint: disable=broad-except
    return [DirectResult('translate', 'inconclusive', f'translator failed: {type(e).__name__}: {e}')]
  nops = {n: len(c[0]) for n, c in compiled.items()}
  tl_all = set()
  for _, (_, locs, tl) in compiled.items():
    tl_all |= tl
  results.append(DirectResult('translate', 'holds', f'programs compiled to micro-operations: {nops}; per-thread locations '
                              f'(classes deriving from threading.local): {sorted(".".join(map(str, l)) for l in tl_all)}',
                              round(time.time() - t0, 3), queries=0, sample=nops))
  # shared-state inventory
  inv = _shared_state_inventory()
  unknown = sorted(k for k in inv if k not in CLASSIFIED and not k.endswith(':_state') and not k.endswith(':_tracking_state'))
  registries = [k for k in unknown if 'registry' in k.lower() or 'REGISTR' in k or 'traverser' in k.lower() or 'cast' in k.lower()
                or 'serialization' in k or 'special_overrides' in k or 'codegen' in k or 'absl_flags' in k or 'autobuilders' in k]
  unknown = [k for k in unknown if k not in registries]
  results.append(DirectResult('shared_state_inventory', 'holds' if not unknown else 'inconclusive',
                              f'module-level mutable state found: {len(inv)} names; unclassified: {unknown}; import-time registries: '
                              f'{len(registries)}', 0.0, queries=0, sample=sorted(inv)[:40]))
  # translator validation: every program alone, model vs real code
  alone = {}
  for name, (ops, locs, tl) in compiled.items():
    try:
      alone[name] = b3.run_alone(ops, locs, tl)
    except b3.Unsupported as e:
      results.append(DirectResult(f'alone_{name}', 'inconclusive', str(e)))
      return results
    real = _real_run(PROGRAMS[name], _fresh_callables())
    model_view = {k: v for k, v in alone[name].items() if not k.startswith('final:')}
    agree = all(real.get(k) == v for k, v in model_view.items()) and real['increasing']
    results.append(DirectResult(f'validate_{name}', 'holds' if agree else 'inconclusive',
                                f'single-thread model {model_view} vs sequential run of the real code '
                                f'{ {k: real.get(k) for k in model_view} }', 0.0, queries=1, reproduced=True if agree else None,
                                sample=model_view))
    if not agree:
      return results
  # vacuity guard (reachability twin): the same machinery must find the interference when the per-thread state is
  # declared shared - build || build with a shared guard flag, suspend_edit || edit2 with a shared tracking flag
  for names in (('build', 'build'), ('suspend_edit', 'edit2')):
    progs, locs = [], {}
    for n in names:
      ops, l, _ = compiled[n]
      progs.append(ops)
      locs.update(l)
    twin = b3.System(progs, locs, set())
    try:
      s, fin, sched, K = twin.bmc(timeout_ms=120000)
      per_thread = [{k: v for k, v in alone[n].items() if not k.startswith('final:')} for n in names]
      s.add(_negated_property(z3, fin, K, twin, per_thread))
      r = str(s.check())
    except b3.Unsupported as e:
      r = f'unsupported: {e}'
    if r == 'sat':
      m = s.model()
      results.append(DirectResult('twin_shared_state ' + ' || '.join(names), 'holds',
                                  f'with the per-thread state declared shared the negated property is satisfiable (K={K}): '
                                  'the encoding can express and find the interference', 0.0,
                                  sample=dict(schedule=[m[x].as_long() for x in sched])))
    else:
      results.append(DirectResult('twin_shared_state ' + ' || '.join(names), 'inconclusive',
                                  f'expected sat for the twin with shared state, got {r}: the encoding may be vacuous for this '
                                  'kind of state (the systems below are still checked)', 0.0))
  systems = list(QUICK_SYSTEMS)
  if tier != 'quick':
    # thorough: every unordered pair of programs (with repetition) and the listed three-thread systems
    names_all = list(PROGRAMS)
    pairs = [(a, b) for i, a in enumerate(names_all) for b in names_all[i:]]
    have = {tuple(sorted(x)) for x in systems}
    systems += [p for p in pairs if tuple(sorted(p)) not in have] + THOROUGH_EXTRA
  for names in systems:
    progs, locs, tl = [], {}, set()
    for n in names:
      ops, l, t = compiled[n]
      progs.append(ops)
      locs.update(l)
      tl |= t
    sysm = b3.System(progs, locs, tl)
    t1 = time.time()
    try:
      s, fin, sched, K = sysm.bmc(timeout_ms=240000 if tier == 'quick' else 900000)
      per_thread = []
      for n in names:
        ob = dict(alone[n])
        # per-thread locations not touched by this program keep their initial value
        for loc in tl:
          key = 'final:' + '.'.join(map(str, loc))
          ob.setdefault(key, locs[loc])
        per_thread.append(ob)
      s.add(_negated_property(z3, fin, K, sysm, per_thread))
      r = str(s.check())
    except b3.Unsupported as e:
      results.append(DirectResult('||'.join(names), 'inconclusive', str(e)))
      continue
    dt = round(time.time() - t1, 2)
    name = ' || '.join(names)
    states = (K + 1) * sysm.T
    nvis = sum(len(v) for v in sysm.vis)
    if r == 'unsat':
      results.append(DirectResult(name, 'holds', f'K={K} visible steps ({nvis} shared accesses), {sysm.T} threads, {sum(map(len, progs))} micro-operations: no '
                                  'schedule makes a thread observe anything it does not observe alone', dt, states=states,
                                  transitions=K * sum(map(len, progs)), sample=dict(K=K, threads=sysm.T)))
    elif r == 'sat':
      m = s.model()
      schedule = [m[x].as_long() for x in sched]
      seen = {i: dict(err=m.eval(fin['err'][i]).as_long(), nev=m.eval(fin['nev'][i]).as_long(),
                      seq=[m.eval(fin['seq'][i][j]).as_long() for j in range(4)],
                      **{k[1]: m.eval(fin[k][i]).as_long() for k in fin if isinstance(k, tuple) and k[0] == 'obs'})
              for i in range(sysm.T)}
      lines = []
      # list the shared accesses in schedule order (the visible operation each scheduled step starts with)
      for step, tid in enumerate(schedule):
        if tid >= sysm.T:
          break
        pc = m.eval(sysm.S[step][(tid, ('pc',))]).as_long()
        o = progs[tid][pc] if pc < len(progs[tid]) else None
        if o is not None:
          loc = o[1] if o[0] in ('store', 'push') else o[2]
          lines.append((tid, o[0], '.'.join(map(str, loc)), o[-1]))
      rep = _replay(names, lines, per_thread) or _replay(names, lines, per_thread, mode='completion')
      results.append(DirectResult(name, 'violated', f'K={K}: schedule of shared accesses (thread, op, location, line): {lines}; '
                                  f'observed {seen} vs alone {[{k: v for k, v in ob.items() if not k.startswith("final:")} for ob in per_thread]}',
                                  dt, model=dict(schedule=schedule[:K], accesses=lines, observed=seen), reproduced=rep,
                                  states=states, transitions=K * sum(map(len, progs)), finding_key=name))
    else:
      results.append(DirectResult(name, 'inconclusive', f'K={K}: solver answered {r}', dt))
  return results


# ----------------------------------------------------------------------------- replay on real threads

def _replay(names, accesses, alone, mode='line'):
  """Runs the programs on real threads, enforcing the model's order of shared accesses (thread, source line).

  A thread may execute a scheduled line only when all earlier scheduled accesses have happened; all other lines run
  freely.  Returns True iff some thread's observation deviates from its alone-run (the violation reproduces)."""
  import sys
  files = {'building': _repo() + '/fiddle/_src/building.py', 'history': _repo() + '/fiddle/_src/history.py',
           'signatures': _repo() + '/fiddle/_src/signatures.py', 'daglish': _repo() + '/fiddle/_src/daglish.py'}
  class_file = {}
  for short, m in _mods().items():
    for cls in m.classes:
      class_file[cls] = files[short]
  sched = []
  for tid, _, loc, line in accesses:
    mod = loc.split('.')[0]
    fname = files.get(mod)
    if mod == 'heap':
      fname = class_file.get(loc.split('.')[1])         # fields of objects: the file that defines their class
    if line and fname:
      sched.append((tid, fname, line))
  # collapse consecutive duplicates (several micro-ops on one source line)
  dedup = []
  for e in sched:
    if not dedup or dedup[-1] != e:
      dedup.append(e)
  sched = dedup
  cv = threading.Condition()
  pos = [0]
  done = set()
  watched = {f for _, f, _ in sched}

  def gate(tid, filename, lineno):
    with cv:
      deadline = time.time() + 5
      while True:
        while pos[0] < len(sched) and sched[pos[0]][0] in done:
          pos[0] += 1
        rest = sched[pos[0]:]
        if (tid, filename, lineno) not in rest:
          return
        if rest and rest[0] == (tid, filename, lineno):
          pos[0] += 1
          cv.notify_all()
          return
        if time.time() > deadline:
          return
        cv.wait(timeout=0.2)

  # mode 'completion': second scheme, for lines whose access happens at the *end* of the line (a call inside the line
  # runs other scheduled lines first, e.g. `x = cache[k] = Cls()`).  No order is imposed within a thread; a thread may
  # start a scheduled line once every earlier entry of the *other* threads is complete, and an entry is complete when
  # its thread has moved on to another line of the same frame (or left the frame).
  state = [0] * len(sched)           # 0 pending, 1 started, 2 complete
  frames = [None] * len(sched)

  def gate2(tid, frame, event):
    with cv:
      fid = id(frame)
      changed = False
      for i, e in enumerate(sched):
        if e[0] == tid and state[i] == 1 and frames[i] == fid and (event == 'return' or frame.f_lineno != e[2]):
          state[i] = 2
          changed = True
      if changed:
        cv.notify_all()
      if event != 'line':
        return
      key = (tid, frame.f_code.co_filename, frame.f_lineno)
      j = next((i for i, e in enumerate(sched) if e == key and state[i] == 0), None)
      if j is None:
        return
      deadline = time.time() + 5
      while any(sched[i][0] != tid and state[i] != 2 and sched[i][0] not in done for i in range(j)):
        if time.time() > deadline:
          break
        cv.wait(timeout=0.2)
      state[j], frames[j] = 1, fid

  def tracer_for(tid):
    def local(frame, event, arg):
      if mode == 'completion':
        if event in ('line', 'return'):
          gate2(tid, frame, event)
      elif event == 'line':
        gate(tid, frame.f_code.co_filename, frame.f_lineno)
      return local

    def glob(frame, event, arg):
      if frame.f_code.co_filename in watched:
        return local
      return None
    return glob

  callables = _fresh_callables()
  out = {}

  import fiddle as fdl
  cfgs = [fdl.Config(lambda x=None: x) for _ in names]      # created before tracing: construction looks up signatures

  def worker(tid, name):
    sys.settrace(tracer_for(tid))
    try:
      out[tid] = _real_run(PROGRAMS[name], callables, cfgs[tid])
    except Exception as e:  # pylint: disable=broad-except
      out[tid] = {'err': 1, 'exception': repr(e)}
    finally:
      sys.settrace(None)
      with cv:
        done.add(tid)
        cv.notify_all()

  threads = [threading.Thread(target=worker, args=(i, n)) for i, n in enumerate(names)]
  for t in threads:
    t.start()
  for t in threads:
    t.join(60)
  all_ids = []
  for tid, name in enumerate(names):
    got = out.get(tid, {})
    want = {k: v for k, v in alone[tid].items() if not k.startswith('final:')}
    if any(got.get(k) != v for k, v in want.items()) or not got.get('increasing', True):
      return True
    all_ids += got.get('ids', [])
  return len(set(all_ids)) != len(all_ids)       # sequence ids must be unique across threads


def replay_direct(body):
  """./check C19 --replay FILE: re-runs the stored schedule of shared accesses on real threads."""
  import ast as _ast
  from engines import b3
  names = body['fn'].split(' || ')
  model = _ast.literal_eval(body['args_repr'])['model']
  mods = _mods()
  alone = []
  for n in names:
    ops, locs, tl = _compile(PROGRAMS[n], mods)
    alone.append(b3.run_alone(ops, locs, tl))
  accesses = [tuple(a) for a in model['accesses']]
  reproduced = _replay(names, accesses, alone)
  print('schedule of shared accesses:', accesses)
  print('reproduced on real threads:', reproduced)
  return not reproduced


def obligations(tier, seed):
  return [Obligation('c19_bmc', kind='direct', run=(lambda tier=tier: run_bmc(tier)),
                     bounds_note='2 threads (thorough: also 3), K = sum of program lengths (every complete interleaving of the '
                                 'listed programs at micro-operation granularity)')]
