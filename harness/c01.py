"""C01 - build(Config(f, ...)) calls f with exactly the configured arguments."""
from __future__ import annotations

import functools

import fiddle as fdl

from fvlib import sigs
from fvlib import stubs
from fvlib.notes import note
from fvlib.refargs import RefArgs, UNSET
from fvrun.spec import Cube, Obligation

PROPERTY = 'C01'
stubs.stub_build_message_formatting()
stubs.stub_buildable_repr()
EXPLANATION = (
    'bounded symbolic execution of the real Config construction / edits, cfg[:], ordered_arguments and '
    'fdl.build (signature_binding, transform_to_args_kwargs, call_buildable, MemoizedTraversal) with '
    'CrossHair + z3: the signature shape is a cube parameter, which parameters are set, the number of '
    '*args values and the nesting are solver-enumerated, every configured value is an unbounded symbolic '
    'int; the recording callable\'s bound arguments are compared with the direct call')
ASSUMPTIONS = [
    'stub: building._format_arg and Buildable.__repr__ return constants (diagnostic text is the subject of C05, not C01)',
    'an unset positional parameter that is followed by a set positional value receives its own default; if it '
    'has none the call cannot be formed and build must raise (DESIGN Appendix A, "forming the call")',
    'catalogue callables return a record of their bound arguments; equality of records is equality of calls',
]
OUT_OF_BOUNDS = ['more than 2 positional-only + 2 positional-or-keyword + 1 keyword-only named parameters',
                 'more than 2 *args values or 1 extra **kwargs name', 'callables without an inspectable signature']


def _child(v):
  return fdl.Config(sigs.SIGS[sigs.sig_index(0, 1, 0, 0, 0, 0)][0], v)   # fn(k0)


def _child_built(v):
  return sigs.SIGS[sigs.sig_index(0, 1, 0, 0, 0, 0)][0](v)


SPECIAL = [None, 0, False, '', (), [], {}, 'args', 1.5, (None, 0)]
XNAMES = ['zz', 'p0', 'args', 'kw', 'k0', 'self']


def _special(nest):
  v = SPECIAL[nest - 6]
  return type(v)(v) if isinstance(v, (list, dict)) else v     # fresh mutable containers


def _wrap(nest, x):
  if nest == 1:
    return x
  if nest == 2:
    return [x, 7]
  if nest == 3:
    return (x,)
  if nest == 4:
    return {'k': x, 'j': [x]}
  return sigs.PlainNT(x, 1)


def c01_build(sig: int, how: int, s0: bool, s1: bool, s2: bool, s3: bool, so: bool, sx: bool, nva: int,
              v0: int, v1: int, v2: int, v3: int, vo: int, vx: int, vv: int, nest: int, npos: int, xn: int) -> bool:
  """
  nest 1..5: a child Config inside a wrapper at argument position npos; nest 6..15: a special leaf
  (None, falsy values, empty containers, ...) at that position.  xn selects the name of the extra
  **kwargs entry (including names that collide with positional-only / *args / **kw parameters).
  require: 0 <= sig < 324 and 0 <= how <= 2 and 0 <= nva <= 2 and 0 <= nest <= 15 and 0 <= npos <= 6
  require: 0 <= xn <= 5
  """
  fn, shape = sigs.SIGS[sig]
  ref = RefArgs(shape)
  F = ref.F
  mask = [s0, s1, s2, s3][:F]
  vals = [v0, v1, v2, v3][:F]
  cvals = list(vals)             # what goes into the config
  evals = list(vals)             # what the callable must receive
  cvo, evo, cvx, evx = vo, vo, vx, vx
  cvar = [vv + j for j in range(nva)] if shape.va else []
  evar = list(cvar)
  if nest:
    if nest >= 6:
      cval, eval_ = _special(nest), _special(nest)
    else:
      cval, eval_ = _wrap(nest, _child(vv + 100)), _wrap(nest, _child_built(vv + 100))
    if npos < 4:
      if npos < F:
        cvals[npos], evals[npos] = cval, eval_
    elif npos == 4:
      cvo, evo = cval, eval_
    elif npos == 5:
      cvx, evx = cval, eval_
    elif cvar:
      cvar[0], evar[0] = cval, eval_
  use_o = bool(shape.ko) and so
  use_x = bool(shape.vk) and sx
  xname = XNAMES[xn]
  # a colliding extra name is only legal when it cannot be bound to a named parameter by keyword
  if xname in ref.pos_names[shape.p:] or xname == 'o0':
    use_x = False
  collide = (xname != 'zz')
  if xname in ref.pos_names[:shape.p] and not mask[ref.pos_names.index(xname)]:
    use_x = False     # f(p0=..) without a positional p0 is not a legal call / constructor form
  # ---- configure
  prefix = 0
  while prefix < F and mask[prefix]:
    prefix += 1
  gap_free = not any(mask[prefix:])
  if how == 1 and gap_free and (not cvar or prefix == F):
    kwargs = {}
    if use_o:
      kwargs['o0'] = cvo
    if use_x:
      kwargs[xname] = cvx
    cfg = fdl.Config(fn, *cvals[:prefix], *cvar, **kwargs)
  else:
    cfg = fdl.Config(fn)
    if how == 2:
      # edit history with a build in the middle: named edits, a (discarded) build, then the index / slice edits
      for i in range(F):
        if mask[i] and not (i < shape.p or not (i % 2)):
          setattr(cfg, ref.pos_names[i], cvals[i])
      if use_o:
        cfg.o0 = cvo
      try:
        fdl.build(cfg)
      except Exception:  # pylint: disable=broad-except
        pass
      for i in range(F):
        if mask[i] and (i < shape.p or not (i % 2)):
          cfg[i] = cvals[i]
    else:
      for i in range(F):
        if mask[i]:
          if i < shape.p or not (i % 2):
            cfg[i] = cvals[i]
          else:
            setattr(cfg, ref.pos_names[i], cvals[i])
    if cvar:
      cfg[fdl.VARARGS:] = cvar
    if use_o:
      cfg.o0 = cvo
    if use_x:
      if collide:
        # names of positional-only / variadic parameters cannot be assigned by attribute; they
        # can only arrive through the constructor's **kwargs
        cfg = fdl.Config(fn, *cvals[:prefix], **{xname: cvx})
        for i in range(prefix, F):
          if mask[i]:
            cfg[i] = cvals[i]
        if cvar:
          cfg[fdl.VARARGS:] = cvar
        if use_o:
          cfg.o0 = cvo
      else:
        cfg.zz = cvx
  for i in range(F):
    if mask[i]:
      ref.fixed[i] = cvals[i]
  ref.var = list(cvar)
  if use_o:
    ref.ko = cvo
  if use_x:
    ref.extra[xname] = cvx
  # ---- 1. Fiddle's own report equals what was configured
  view = cfg[:]
  rview = ref.view()
  if len(view) != len(rview):
    return False
  for a, b in zip(view, rview):
    if (a is fdl.NO_VALUE or b is fdl.NO_VALUE):
      if a is not b:
        return False
    elif a is not b and a != b:
      return False
  kw_report = {k: v for k, v in fdl.ordered_arguments(cfg).items() if isinstance(k, str)}
  rk = ref.keywords()
  if list(sorted(kw_report)) != list(sorted(rk)):
    return False
  for k in rk:
    if kw_report[k] is not rk[k] and kw_report[k] != rk[k]:
      return False
  # ---- 2. the direct call formed from that report
  impossible = False
  last_set = max([i for i in range(F) if mask[i]], default=-1)
  pos = []
  for i in range(F):
    if mask[i]:
      pos.append(evals[i])
    elif ref.defaults[i] is not UNSET:
      pos.append(ref.defaults[i])
    else:
      impossible = True    # required parameter missing
  ko = ()
  if shape.ko:
    if use_o:
      ko = (evo,)
    elif shape.dk:
      ko = (200,)
    else:
      impossible = True
  kw = {xname: evx} if use_x else {}
  sigs.reset_log()
  try:
    got = fdl.build(cfg)
    raised = False
  except Exception:  # pylint: disable=broad-except
    raised = True
  note('c01', tuple(sorted(map(str, cfg.__arguments__))), nest, npos if nest else -1, how, raised, xn if use_x else -1)
  if impossible:
    return raised
  if raised:
    return False
  expected = sigs.Rec(fn.__name__, pos, evar, ko, kw)
  return got == expected


def _special_cases():
  """(callable, args, kwargs, expected-maker).  expected-maker(v) builds what the callable returns."""
  return [
      (sigs.ClsInit, lambda v: ((v,), {}), lambda v: sigs.ClsInit(v)),
      (sigs.ClsInit, lambda v: ((1,), dict(c=v)), lambda v: sigs.ClsInit(1, c=v)),
      (sigs.SubA, lambda v: ((v, 2), {}), lambda v: sigs.SubA(v, 2)),
      (sigs.SubB, lambda v: ((v, 2, 3, 4), dict(q=v)), lambda v: sigs.SubB(v, 2, 3, 4, q=v)),
      (sigs.DC, lambda v: ((v,), {}), lambda v: sigs.DC(v)),
      (sigs.DC, lambda v: ((), dict(x=1, y=v)), lambda v: sigs.DC(1, v)),
      (sigs.WithClassmethod.make, lambda v: ((v,), {}), lambda v: sigs.WithClassmethod.make(v)),
      (sigs.WithClassmethod.make, lambda v: ((1, 2, v), dict(k=v)), lambda v: sigs.WithClassmethod.make(1, 2, v, k=v)),
      (sigs.PARTIAL_OBJ, lambda v: ((v,), {}), lambda v: sigs.PARTIAL_OBJ(v)),
      (sigs.PARTIAL_OBJ, lambda v: ((), dict(b=v, c=3)), lambda v: sigs.PARTIAL_OBJ(b=v, c=3)),
      (sigs.CALLABLE_INSTANCE, lambda v: ((v,), dict(w=v)), lambda v: sigs.CALLABLE_INSTANCE(v, w=v)),
      (sigs.CALLABLE_INSTANCE, lambda v: ((v, 1, 2), {}), lambda v: sigs.CALLABLE_INSTANCE(v, 1, 2)),
      (sigs.NT, lambda v: ((v,), {}), lambda v: sigs.NT(v)),
      (sigs.PlainNT, lambda v: ((), dict(p=v, q=2)), lambda v: sigs.PlainNT(v, 2)),
  ]


def _eq_built(a, b):
  if type(a) is not type(b):
    return False
  if isinstance(a, sigs.DC):
    return a.x == b.x and a.y == b.y and a.z == b.z and a.z is not b.z
  return a == b


def c01_special(case: int, v: int, late: bool) -> bool:
  """
  Classes with __init__, a subclass chain, a dataclass with default_factory, a classmethod, a
  functools.partial object, a callable instance and NamedTuple types.
  require: 0 <= case < 14
  """
  fn, mk, exp = _special_cases()[case]
  args, kwargs = mk(v)
  if late:
    cfg = fdl.Config(fn, *args)
    for k, val in kwargs.items():
      setattr(cfg, k, val)
  else:
    cfg = fdl.Config(fn, *args, **kwargs)
  got = fdl.build(cfg)
  note('c01s', case, late)
  return _eq_built(got, exp(v))


def c01_missing(case: int, v: int) -> bool:
  """
  A required parameter is missing: build must raise, never mis-bind.
  require: 0 <= case < 5
  """
  cases = [
      (sigs.ClsInit, (), dict(b=v)),
      (sigs.DC, (), dict(y=v)),
      (sigs.WithClassmethod.make, (), dict(k=v)),
      (sigs.PARTIAL_OBJ, (), dict(c=v)),
      (sigs.CALLABLE_INSTANCE, (), dict(b=v)),
  ]
  fn, args, kwargs = cases[case]
  cfg = fdl.Config(fn, *args, **kwargs)
  note('c01m', case)
  try:
    fdl.build(cfg)
  except Exception:  # pylint: disable=broad-except
    return True
  return False


_SMOKE = dict(sig=0, how=0, s0=True, s1=True, s2=True, s3=True, so=True, sx=True, nva=2, v0=1, v1=2, v2=3, v3=4,
              vo=5, vx=6, vv=7, nest=0, npos=0, xn=0)


import dataclasses as _dc


@_dc.dataclass
class KeepOrder:
  """Unhashable callable instance (a dataclass with eq and without frozen has __hash__ = None)."""
  k: int = 0

  def __call__(self, x, y=20):
    return ('keep', x, y)


@_dc.dataclass
class SwapOrder:
  k: int = 0

  def __call__(self, y, x=20):
    return ('swap', x, y)


def c01_unhashable(n: int, v: int) -> bool:
  """
  Short-lived unhashable callable instances with different call signatures, configured and built one after the other:
  each build equals the direct call (a per-callable cache must not outlive its callable).  Address reuse needs real
  garbage collection, so what can go wrong here shows in the concrete smoke run (n = 300), not on symbolic paths.
  require: 1 <= n <= 300
  """
  for c in (1, 2, 4, 300):
    if n == c:
      n = c
      break
  else:
    n = 1
  note('c01u', n)
  for i in range(n):
    inst = (KeepOrder if i % 2 == 0 else SwapOrder)(i)
    cfg = fdl.Config(inst, v + i, 2)
    if cfg[:] != [v + i, 2] or fdl.build(cfg) != inst(v + i, 2):
      return False
    del cfg, inst
  return True


def obligations(tier, seed):
  import random
  rng = random.Random(seed)
  S = sigs.sig_index
  core = [S(2, 1, 1, 1, 1, 1, 1), S(2, 2, 1, 1, 1, 4, 1), S(2, 1, 0, 0, 0, 1), S(1, 2, 1, 0, 0, 2), S(0, 2, 0, 1, 1, 0, 0),
          S(2, 2, 0, 1, 0, 2, 1), S(2, 0, 1, 0, 0, 1), S(2, 2, 1, 0, 1, 3), S(1, 1, 1, 1, 0, 0, 0), S(2, 2, 0, 0, 0, 4)]
  _SMOKE['sig'] = core[0]
  others = [i for i in range(len(sigs.SIGS)) if i not in core]
  if tier == 'quick':
    plain = list(range(len(sigs.SIGS)))
    nested = core[:4] + rng.sample(others, 2)
    t = 200
  else:
    plain = list(range(len(sigs.SIGS)))
    nested = core + rng.sample(others, 50)
    t = 600
  cubes = []
  gap_free = '(s0 or not s1) and (s1 or not s2) and (s2 or not s3)'
  for s in plain:
    cubes.append(Cube(f's{s}_h0', [], dict(sig=s, how=0 if s % 3 else 2, nest=0, npos=0, xn=0), est=200))
    # constructor path: only gap-free prefixes reach it (other masks fall back to the edit path)
    cubes.append(Cube(f's{s}_h1', [gap_free], dict(sig=s, how=1, nest=0, npos=0, xn=0), est=60))
    if sigs.SIGS[s][1].vk:
      # extra **kwargs names that collide with positional-only / *args / **kw parameter names
      for xn in range(1, 6):
        cubes.append(Cube(f's{s}_x{xn}', [], dict(sig=s, how=s % 2, nest=0, npos=0, xn=xn, sx=True), est=100))
  for s in nested:
    shape = sigs.SIGS[s][1]
    for nest in range(1, 16):
      for npos in range(7):
        # masks: the nested argument must be set, so bind its flag in the cube
        fix = dict(sig=s, how=nest % 2, nest=nest, npos=npos, xn=0)
        if npos < 4:
          if npos >= shape.p + shape.k:
            continue
          fix[f's{npos}'] = True
        elif npos == 4:
          if not shape.ko:
            continue
          fix['so'] = True
        elif npos == 5:
          if not shape.vk:
            continue
          fix['sx'] = True
        else:
          if not shape.va:
            continue
        pre = ['nva >= 1'] if npos == 6 else []
        cubes.append(Cube(f's{s}_n{nest}_p{npos}', pre, fix, est=100))
  return [
      Obligation('c01_build', c01_build, cubes, timeout=t, path_timeout=30, smoke=dict(_SMOKE)),
      Obligation('c01_special', c01_special, [Cube(f'c{c}', [], dict(case=c)) for c in range(14)], timeout=60,
                 smoke=dict(case=0, v=3, late=False)),
      Obligation('c01_missing', c01_missing, [Cube(f'c{c}', [], dict(case=c)) for c in range(5)], timeout=60,
                 smoke=dict(case=0, v=3)),
      Obligation('c01_unhashable', c01_unhashable, [Cube(f'n{n}', [], dict(n=n)) for n in (1, 2, 4)], timeout=120,
                 smoke=dict(n=300, v=3)),
  ]
