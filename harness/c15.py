"""C15 - select() hits exactly the matching nodes; replace keeps the rest intact."""
from __future__ import annotations

import copy

import fiddle as fdl
from fiddle import selectors
from fiddle._src import tagging

from fvlib import fam, sigs
from fvlib import stubs
from fvlib.canon import canon, buildables
from fvlib.notes import note
from fvrun.spec import Cube, Obligation

PROPERTY = 'C15'
stubs.stub_build_message_formatting()
stubs.stub_buildable_repr()
EXPLANATION = (
    'bounded symbolic execution of the real selectors.select / NodeSelection.__iter__ / set / get / replace / '
    'TagSelection.__iter__, _memoized_walk_leaves_first and mutate_buildable.move_buildable_internals (CrossHair + z3) '
    'on a four-node DAG family over the callables {function g, classes A <- B <- C, a classmethod looked up afresh at every use}: per-node callable, Config/Partial '
    'kind and child targets are solver-enumerated, the selected callable, match_subclasses, buildable_type filter, '
    'wrapper kind and API are cube parameters; assigned values are unbounded symbolic ints; the oracle is an '
    'independent walker plus a second, substituted construction of the same family member')
ASSUMPTIONS = ['stubs: building._format_arg, Buildable.__repr__ constant',
               'a replacement value matches the selection only in the replace_equal forms (an equal copy of the first '
               'matching node); there the clause "nothing matching is reachable afterwards" is replaced by "the matched '
               'node objects are gone"']
OUT_OF_BOUNDS = ['more than 4 Buildable nodes', 'other replacement values that match the selection (structure-altering '
                 'selections are explicitly unsupported by the NodeSelection docstring)']

class K:
  def __init__(self, x=None, y=None, z=None):
    self.x, self.y, self.z = x, y, z

  @classmethod
  def make(cls, x=None, y=None, z=None):
    return cls(x, y, z)


class _Calls:
  """Index -> callable; the classmethod (4) is looked up afresh on every access, as user code does: each access yields
  a new bound-method object that is == but not `is` any other."""

  def __getitem__(self, i):
    return [fam.g0, fam.A, fam.B, fam.C][i] if i < 4 else K.make


CALLS = _Calls()
NCALL = 5
BTYPES = [fdl.Buildable, fdl.Config, fdl.Partial]


def _conc(v, lo, hi):
  for c in range(lo, hi + 1):
    if v == c:
      return c
  return lo


def _build_graph(n, targets, w, kinds, calls, lv, subst=None):
  """The family member, or (with `subst`) the same member with every reference to node i replaced by subst[i]."""
  nodes = []
  placed = []
  cache = {}
  for i in range(n):
    vals = []
    for s in range(2):
      t = targets[i][s]
      if 0 <= t < i:
        ref = placed[t]
        if w:
          if t not in cache:
            cache[t] = fam.wrap(w, ref)           # one container object per target, shared by all its parents
          vals.append(cache[t])
        else:
          vals.append(ref)
      else:
        vals.append(lv + 10 * i + s)
    ctor = fdl.Partial if kinds[i] else fdl.Config
    node = ctor(CALLS[calls[i]], x=vals[0], y=vals[1])
    nodes.append(node)
    placed.append(subst[i] if subst is not None and i in subst else node)
  return nodes


def _match(node, f, ms, bt):
  if not isinstance(node, BTYPES[bt]):
    return False
  c = fdl.get_callable(node)
  if c == CALLS[f]:
    return True
  return bool(ms and isinstance(CALLS[f], type) and isinstance(c, type) and issubclass(c, CALLS[f]))


def _ids(root):
  return {id(b) for b in buildables(root)}


API = ['iterate', 'set', 'get', 'replace_int', 'replace_int_nodeepcopy', 'replace_cfg', 'replace_cfg_nodeepcopy',
       'replace_equal_nodeepcopy', 'replace_equal', 'set_two']


def c15_nodes(api: int, f: int, ms: bool, bt: int, w: int, c0: int, c1: int, c2: int, c3: int, k0: bool, k1: bool,
              k2: bool, k3: bool, t1x: int, t2x: int, t2y: int, t3x: int, t3y: int, lv: int, v: int) -> bool:
  """
  require: 0 <= api <= 9 and 0 <= f <= 4 and 0 <= bt <= 2 and 0 <= w <= 5
  require: 0 <= c0 <= 4 and 0 <= c1 <= 4 and 0 <= c2 <= 4 and 0 <= c3 <= 4
  require: -1 <= t1x <= 0 and -1 <= t2x <= 1 and -1 <= t2y <= 1 and -1 <= t3x <= 2 and -1 <= t3y <= 2
  """
  calls = [_conc(c0, 0, 4), _conc(c1, 0, 4), _conc(c2, 0, 4), _conc(c3, 0, 4)]
  kinds = [bool(k0), bool(k1), bool(k2), bool(k3)]
  targets = [(-1, -1), (_conc(t1x, -1, 0), -1), (_conc(t2x, -1, 1), _conc(t2y, -1, 1)),
             (_conc(t3x, -1, 2), _conc(t3y, -1, 2))]
  nodes = _build_graph(4, targets, w, kinds, calls, lv)
  root = nodes[3]
  reach = fam.reachable(4, targets)
  M = [i for i in sorted(reach) if _match(nodes[i], f, ms, bt)]
  snap = {i: dict(nodes[i].__arguments__) for i in range(4)}
  sel = selectors.select(root, CALLS[f], match_subclasses=ms, buildable_type=BTYPES[bt], check_nonempty=False)
  note('c15', api, f, ms, bt, w, tuple(calls), tuple(kinds), tuple(targets), tuple(M))
  if api == 0:
    got = [id(x) for x in sel]
    return sorted(got) == sorted(id(nodes[i]) for i in M)
  if api == 1:
    sel.set(z=v)
    for i in range(4):
      args = nodes[i].__arguments__
      if i in M:
        if 'z' not in args or args['z'] != v or type(args['z']) is not type(v):
          return False
        if args['x'] is not snap[i]['x'] or args['y'] is not snap[i]['y']:
          return False
      else:
        if set(args) != set(snap[i]) or any(args[k] is not snap[i][k] for k in args):
          return False
    return True
  if api == 9:
    # several attributes in one call; the first assignment detaches whatever the x slots held (possibly other matching
    # nodes): every node that matched when set() was called still receives every attribute
    sel.set(x=v, z=v + 1)
    for i in range(4):
      args = nodes[i].__arguments__
      if i in M:
        if 'z' not in args or args['z'] != v + 1 or args['x'] != v or args['y'] is not snap[i]['y']:
          return False
      else:
        if set(args) != set(snap[i]) or any(args[k] is not snap[i][k] for k in args):
          return False
    return True
  if api == 2:
    got = [id(x) for x in sel.get('x')]
    return sorted(got) == sorted(id(nodes[i].__arguments__['x']) for i in M) and canon(root) == canon(
        _build_graph(4, targets, w, kinds, calls, lv)[3])
  # ---- replace
  if api in (3, 4):
    value = v
  elif api in (5, 6):
    value = fdl.Config(fam.g5, x=v, y=[v])
  else:
    # a replacement that is == to the first matching node but a different object (it matches the selection itself)
    if not M:
      return True
    value = copy.deepcopy(nodes[M[0]])
  deep = api in (3, 5, 8)
  if 3 in M:
    try:
      sel.replace(value, deepcopy=deep)
    except ValueError:
      return canon(root) == canon(_build_graph(4, targets, w, kinds, calls, lv)[3])
    return False
  sel.replace(value, deepcopy=deep)
  # expected: every reference to a matching node now holds the value (one copy per matching node when deep)
  subst = {i: (copy.deepcopy(value) if deep else value) for i in M}
  model = _build_graph(4, targets, w, kinds, calls, lv, subst=subst)
  if canon(root) != canon(model[3]):
    return False
  if root is not nodes[3]:
    return False
  # non-matching Buildables that are still referenced keep their identity
  keep = set()
  stack = [3]
  while stack:
    i = stack.pop()
    if i in keep or i in M:
      continue
    keep.add(i)
    for t in targets[i]:
      if 0 <= t < i:
        stack.append(t)
  after = _ids(root)
  for i in keep:
    if id(nodes[i]) not in after:
      return False
  if api >= 7:
    # the matching nodes themselves are gone (their replacement is an equal but distinct object) ...
    for i in M:
      if id(nodes[i]) in after:
        return False
    # ... and without deepcopy the very object passed in is what is referenced now
    return deep or id(value) in after
  # nothing that matches is reachable any more
  for b in buildables(root):
    if _match(b, f, ms, bt):
      return False
  return True


class T0(fdl.Tag):
  """t0"""


class T1(T0):
  """t1"""


def req(a, b=7, /, c=8, *args, d, e=9, **kw):
  return sigs.Rec('req', (a, b, c), args, (d, e), kw)


_SITES = [0, 1, 'c', 3, 'd', 'e', 'extra']     # a (no default), b (default), c, *args[0], d (required kw-only), e, **kw


def c15_tag_iter(mask: int, setmask: int, q: int, shared: bool, v: int, dbl: bool) -> bool:
  """
  Iterating a tag selection yields, for each selected argument, its value, else its default, else NO_VALUE - once per
  tagged argument of each distinct Buildable (bit i of `mask`: site i tagged T1, bit i of `setmask`: site i has a value;
  `dbl`: every tagged site carries T0 as well, so that for q == 0 two of its tags match and it must still come once).
  require: 0 <= mask < 128 and 0 <= setmask < 128 and 0 <= q <= 1
  """
  mask, setmask = _conc(mask, 0, 127), _conc(setmask, 0, 127)
  if setmask & 8 and not (setmask & 1 and setmask & 2 and setmask & 4):
    return True                              # a *args element needs the positional prefix (C01's subject)
  if mask & 8 and not setmask & 8:
    return True                              # cannot tag a missing *args element meaningfully
  cfg = fdl.Config(req)
  vals = {}
  for i, key in enumerate(_SITES):
    if setmask & (1 << i):
      val = v + i
      if key == 3:
        cfg[fdl.VARARGS:] = [val]
      elif isinstance(key, int):
        cfg[key] = val
      else:
        setattr(cfg, key, val)
      vals[i] = val
  for i, key in enumerate(_SITES):
    if mask & (1 << i):
      fdl.add_tag(cfg, key, T1)
      if dbl:
        fdl.add_tag(cfg, key, T0)
  defaults = {1: 7, 2: 8, 5: 9}
  expect = []
  for i in range(7):
    if mask & (1 << i):
      if i in vals:
        expect.append(('v', vals[i]))
      elif i in defaults:
        expect.append(('v', defaults[i]))
      else:
        expect.append(('NO_VALUE',))
  root = fdl.Config(fam.g1, x=[cfg, cfg] if shared else [cfg], y=cfg if shared else None)
  fdl.add_tag(root, 'z', T0)        # a T0 (superclass) tag elsewhere: matched only by q == 0
  qt = [T0, T1][q]
  if q == 0:
    expect.append(('v', None))                 # root.z: unset, default None
  got = []
  for x in selectors.select(root, tag=qt, check_nonempty=False):
    got.append(('NO_VALUE',) if x is tagging.NO_VALUE else ('v', x))
  note('c15t', mask, setmask, q, shared, bool(dbl))
  key = lambda t: (t[0], -1 if len(t) < 2 or t[1] is None else t[1])
  return sorted(got, key=key) == sorted(expect, key=key)


def obligations(tier, seed):
  cubes = []
  for api in range(10):
    for f in range(NCALL):
      for ms in (False, True):
        for bt in range(3):
          if tier == 'quick' and (api + f + ms + bt) % 2:
            continue
          for w in ((0, 2) if tier == 'quick' else range(6)):
            if tier == 'quick' and (w // 2 + api + bt) % 2:
              continue
            # per cube: callables of nodes 0..2 and the shape are symbolic; root callable and kinds fixed by cube index
            j = api + f + bt + w
            fix = dict(api=api, f=f, ms=ms, bt=bt, w=w, c3=(f + 1 + j) % NCALL if j % 3 else f, k0=bool(j % 2), k3=bool(j % 5 == 0))
            if tier == 'quick':
              fix.update(k1=bool((j // 2) % 2), k2=bool(j % 3 == 0), t1x=0, c0=(f + j) % NCALL, c1=(f + j // 3) % NCALL, t3y=(j % 4) - 1)
            cubes.append(Cube(f'{API[api]}_f{f}_m{int(ms)}_b{bt}_w{w}', [], fix, est=25 * 2 * 9 * 9))
  tcubes = [Cube(f'm{m}', [f'mask % 8 == {m}'], {}, est=16 * 128 * 4) for m in range(8)]
  if tier == 'quick':
    tcubes = [Cube(f'm{m}_s{s}', [f'mask % 16 == {m}', f'setmask % 4 == {s}'], dict(shared=bool((m + s) % 2), dbl=bool((m // 3 + s) % 2)), est=8 * 32 * 2)
              for m in range(16) for s in range(4) if (m + s) % 3 == 0]
  t = 300 if tier == 'quick' else 900
  smoke = dict(api=0, f=1, ms=True, bt=0, w=1, c0=0, c1=2, c2=1, c3=0, k0=False, k1=True, k2=False, k3=False,
               t1x=0, t2x=1, t2y=0, t3x=2, t3y=1, lv=3, v=50)
  return [
      Obligation('c15_nodes', c15_nodes, cubes, timeout=t, path_timeout=40, smoke=smoke,
                 extra_smokes=[dict(smoke, api=a, f=a % 5, bt=a % 3, w=a % 6, ms=bool(a % 2)) for a in range(10)] +
                 [dict(smoke, api=a, f=4, c0=4, c1=4, c2=4, c3=0, bt=0) for a in (0, 1, 3, 7)] +
                 [dict(smoke, api=7, f=2, c0=2, c1=2, c2=0, c3=0, t3x=1, t3y=-1, t2x=-1, t2y=-1, t1x=-1, bt=0)] +
                 [dict(smoke, api=5, f=1, c3=0, c2=2, c1=1, c0=3, t3x=2, t3y=0, t2x=1, t2y=0)]),
      Obligation('c15_tag_iter', c15_tag_iter, tcubes, timeout=t, path_timeout=40,
                 smoke=dict(mask=0b1111111, setmask=0b0010111, q=1, shared=True, v=3, dbl=False),
                 extra_smokes=[dict(mask=0b0110011, setmask=0, q=0, shared=False, v=3, dbl=False),
                               dict(mask=0b0110011, setmask=0b0000111, q=0, shared=True, v=3, dbl=True)]),
  ]
