"""C04 - built Partial is functools.partial; ArgFactory arguments are fresh per call."""
from __future__ import annotations

import functools

import fiddle as fdl

from fvlib import sigs
from fvlib import stubs
from fvlib.canon import canon
from fvlib.notes import note
from fvrun.spec import Cube, Obligation

PROPERTY = 'C04'
stubs.stub_build_message_formatting()
stubs.stub_buildable_repr()
EXPLANATION = (
    'bounded symbolic execution of the real fdl.build(Partial) -> Partial.__build__ / ArgFactory.__build__ / '
    '_build_partial / _promote_arg_factory / _invoke_arg_factories / arg_factory.partial / _InvokeArgFactoryWrapper '
    'and of the calls of the built callable (CrossHair + z3): each argument slot (positional-only, '
    'positional-or-keyword, *args elements, keyword-only, **kwargs entry) takes one of 18 nesting kinds, the kinds '
    'of two slots are solver-enumerated per cube, two or three calls each override a solver-chosen subset of keywords '
    'with unbounded symbolic ints; results and aliasing across all calls are compared (canonical form of the list of '
    'all call results) with a closure-based reference model of functools.partial plus per-call factory invocation')
ASSUMPTIONS = ['stubs: building._format_arg, Buildable.__repr__ constant',
               'nested callables (a Partial inside a Partial) are compared by calling them twice inside the recording function']
OUT_OF_BOUNDS = ['more than 3 calls', 'more than 5 argument slots', 'call-time positional arguments other than appended *args']


class Obj:
  """Recording object: identity matters, equality never used."""

  def __init__(self, name=None, x=None, y=None):
    self.name, self.x, self.y = name, x, y
    sigs.LOG.append(('Obj', name))


def objp(x=None, /, *rest):
  """Takes its arguments positionally only (a positional-only parameter and *args)."""
  return Obj('objp', x=x, y=rest)


def _show(v):
  """Arguments that are callables (a built Partial nested in a Partial) are observed by calling them twice."""
  if isinstance(v, (functools.partial, _RefPartial)):
    return ['callable', v(), v()]
  return v


def f0(a=None, b=None, *, c=None, **kw):
  return sigs.Rec('f0', (_show(a), _show(b)), (), (_show(c),), {k: _show(v) for k, v in kw.items()})


def f1(p=None, /, a=None, *args, c=None):
  return sigs.Rec('f1', (_show(p), _show(a)), tuple(_show(v) for v in args), (_show(c),), {})


class F2:
  def __init__(self, a=None, b=None, c=None, **kw):
    self.rec = sigs.Rec('F2', (_show(a), _show(b)), (), (_show(c),), {k: _show(v) for k, v in kw.items()})


def f3(p=None, /, a=None, b=None, *, c=None, **kw):
  return sigs.Rec('f3', (_show(p), _show(a), _show(b)), (), (_show(c),), {k: _show(v) for k, v in kw.items()})


FNS = [f0, f1, F2, f3]

# ----------------------------------------------------------------------------- argument specs

KINDS = ['value', 'Config', 'ArgFactory', '[ArgFactory, value]', "{'k': ArgFactory}", 'ArgFactory(ArgFactory)',
         'ArgFactory(Config)', 'Partial(ArgFactory)', '[Config, value] (no factory)', '(ArgFactory, [ArgFactory], [value])',
         '[ArgFactory, same ArgFactory]', '[ArgFactory, equal ArgFactory]',
         '[bare ArgFactory, equal bare ArgFactory]', "[ArgFactory, {'d': value}, [value], {}] (factory-free siblings)",
         'ArgFactory(fn, value) - positional arguments only', 'ArgFactory(fn, ArgFactory, value) - positional, nested',
         'the very container object of slot a (slot a: [ArgFactory, value])',
         "ArgFactory(x=[ArgFactory], y={'k': (ArgFactory,)}) - factories only inside containers of a factory"]
NK = len(KINDS)


def spec(kind, v, tag):
  if kind == 0:
    return ('val', v)
  if kind == 1:
    return ('cfg', tag, {'x': ('val', v)})
  if kind == 2:
    return ('fac', tag, {'x': ('val', v)})
  if kind == 3:
    return ('list', [('fac', tag, {}), ('val', v)])
  if kind == 4:
    return ('dict', {'k': ('fac', tag, {'x': ('val', v)})})
  if kind == 5:
    return ('fac', tag, {'x': ('fac', tag + 'i', {'x': ('val', v)})})
  if kind == 6:
    return ('fac', tag, {'x': ('cfg', tag + 'c', {'x': ('val', v)}), 'y': ('list', [('val', v)])})
  if kind == 7:
    return ('partial', tag, {'x': ('fac', tag + 'i', {}), 'y': ('cfg', tag + 'c', {})})
  if kind == 8:
    return ('list', [('cfg', tag, {}), ('val', v)])
  if kind == 9:
    return ('tuple', [('fac', tag, {}), ('list', [('fac', tag + '2', {})]), ('list', [('val', v)])])
  if kind == 10:
    shared = ('fac', tag, {})
    return ('list', [shared, shared])           # one ArgFactory instance referenced twice
  if kind == 11:
    return ('list', [('fac', tag, {}), ('fac', tag, {})])   # two equal but distinct ArgFactory instances
  if kind == 12:
    return ('dict', {'u': ('fac0', 1), 'w': [('fac0', 2)][0], 'n': ('list', [('fac0', 3)])})   # argument-less, distinct
  if kind == 13:
    # factory-free containers (a non-empty dict, a list, an empty dict) next to a factory: passed through uncopied
    return ('list', [('fac', tag, {}), ('dict', {'d': ('val', v)}), ('list', [('val', v)]), ('dict', {})])
  if kind == 14:
    return ('facp', tag, [('val', v)])
  if kind == 15:
    return ('facp', tag, [('fac', tag + 'i', {}), ('val', v), ('list', [('val', v)])])
  if kind == 16:
    return ('list', [('fac', tag, {}), ('val', v)])          # (slots b / e: replaced by slot a's object in c04_calls)
  return ('fac', tag, {'x': ('list', [('fac', tag + 'i', {})]), 'y': ('dict', {'k': ('tuple', [('fac', tag + 'j', {})])})})


def to_fdl(s, memo):
  if id(s) in memo:
    return memo[id(s)]
  k = s[0]
  if k == 'val':
    return s[1]
  if k == 'fac0':
    r = fdl.ArgFactory(Obj)
    memo[id(s)] = r
    return r
  if k == 'facp':
    r = fdl.ArgFactory(objp, *[to_fdl(c, memo) for c in s[2]])
    memo[id(s)] = r
    return r
  if k in ('cfg', 'fac', 'partial'):
    ctor = {'cfg': fdl.Config, 'fac': fdl.ArgFactory, 'partial': fdl.Partial}[k]
    r = ctor(Obj, name=s[1], **{n: to_fdl(c, memo) for n, c in s[2].items()})
  elif k == 'list':
    r = [to_fdl(c, memo) for c in s[1]]
  elif k == 'tuple':
    r = tuple(to_fdl(c, memo) for c in s[1])
  else:
    r = {n: to_fdl(c, memo) for n, c in s[1].items()}
  memo[id(s)] = r
  return r


def has_fac(s):
  k = s[0]
  if k in ('fac', 'fac0', 'facp'):
    return True
  if k in ('val', 'cfg', 'partial'):
    return False
  kids = s[1].values() if k == 'dict' else s[1]
  return any(has_fac(c) for c in kids)


class _RefPartial:
  def __init__(self, name, thunks):
    self.name, self.thunks = name, thunks

  def __call__(self):
    return Obj(self.name, **{n: t() for n, t in self.thunks.items()})


def ref_thunk(s, memo):
  """Build-time evaluation of a spec; returns the per-call thunk (reference semantics)."""
  if id(s) in memo:
    return memo[id(s)]
  k = s[0]
  if k == 'val':
    t = (lambda v=s[1]: v)
  elif k == 'cfg':
    obj = Obj(s[1], **{n: ref_thunk(c, memo)() for n, c in s[2].items()})     # built once, at build time
    t = (lambda o=obj: o)
  elif k == 'fac0':
    t = (lambda: Obj())
  elif k == 'facp':
    kids = [ref_thunk(c, memo) for c in s[2]]
    t = (lambda kids=kids: objp(*[th() for th in kids]))                       # fresh on every call
  elif k == 'fac':
    kids = {n: ref_thunk(c, memo) for n, c in s[2].items()}
    t = (lambda name=s[1], kids=kids: Obj(name, **{n: th() for n, th in kids.items()}))   # fresh on every call
  elif k == 'partial':
    p = _RefPartial(s[1], {n: ref_thunk(c, memo) for n, c in s[2].items()})
    t = (lambda p=p: p)
  else:
    if k == 'dict':
      kids = {n: ref_thunk(c, memo) for n, c in s[1].items()}
      make = lambda kids=kids: {n: th() for n, th in kids.items()}
    elif k == 'list':
      kids = [ref_thunk(c, memo) for c in s[1]]
      make = lambda kids=kids: [th() for th in kids]
    else:
      kids = [ref_thunk(c, memo) for c in s[1]]
      make = lambda kids=kids: tuple(th() for th in kids)
    if has_fac(s):
      if k == 'list' and len(s[1]) == 2 and s[1][0] is s[1][1]:
        # the same ArgFactory instance twice in one container: invoked once per call, both slots share the result
        one = kids[0]
        make = lambda one=one: (lambda o: [o, o])(one())
      t = make
    else:
      const = make()                           # factory-free containers are passed through uncopied
      t = (lambda c=const: c)
  memo[id(s)] = t
  return t


def _nobj():
  return sum(1 for n, _ in sigs.LOG if n == 'Obj')


def _conc(v, lo, hi):
  for c in range(lo, hi + 1):
    if v == c:
      return c
  return lo


def c04_calls(fn: int, ka: int, kb: int, kc: int, ke: int, top: int, ncalls: int, m1: int, m2: int, m3: int,
              v: int, o1: int, o2: int) -> bool:
  """
  fn: 0 keyword slots a, b, c + **kw entry e; 1 positional-only p, a, two *args elements, c; 2 a class; 3 a
  positional-only parameter (slot a) in front of positional-or-keyword ones, no *args.
  top: 0 fdl.Partial at the root; 1 the Partial sits inside a Config argument list (built as part of a larger graph).
  m_i: bit 0 overrides b (fn 1: nothing), bit 1 overrides c, bit 2 overrides e (fn 1: appends a call-time positional).
  require: 0 <= fn <= 3 and 0 <= ka <= 17 and 0 <= kb <= 17 and 0 <= kc <= 17 and 0 <= ke <= 17 and 0 <= top <= 1
  require: 1 <= ncalls <= 3 and 0 <= m1 <= 7 and 0 <= m2 <= 7 and 0 <= m3 <= 7
  """
  ka, kb, kc, ke = _conc(ka, 0, NK - 1), _conc(kb, 0, NK - 1), _conc(kc, 0, NK - 1), _conc(ke, 0, NK - 1)
  fn, ncalls = _conc(fn, 0, 3), _conc(ncalls, 1, 3)
  masks = [_conc(m1, 0, 7), _conc(m2, 0, 7), _conc(m3, 0, 7)][:ncalls]
  specs = {'a': spec(ka, v, 'A'), 'b': spec(kb, v + 1, 'B'), 'c': spec(kc, v + 2, 'C'), 'e': spec(ke, v + 3, 'E')}
  # kind 16 in another slot: that argument is the very object slot a holds (one container reachable from two arguments)
  for slot, kk in (('b', kb), ('c', kc), ('e', ke)):
    if kk == 16:
      specs[slot] = specs['a']
  memo = {}
  if fn == 1:
    part = fdl.Partial(f1, to_fdl(specs['a'], memo), to_fdl(specs['b'], memo), to_fdl(specs['e'], memo), v + 9,
                       c=to_fdl(specs['c'], memo))
  elif fn == 3:
    part = fdl.Partial(f3, to_fdl(specs['a'], memo), a=v + 9, b=to_fdl(specs['b'], memo), c=to_fdl(specs['c'], memo),
                       e=to_fdl(specs['e'], memo))
  else:
    part = fdl.Partial(FNS[fn], a=to_fdl(specs['a'], memo), b=to_fdl(specs['b'], memo), c=to_fdl(specs['c'], memo),
                       e=to_fdl(specs['e'], memo))
  sigs.reset_log()
  if top == 0:
    built = fdl.build(part)
  else:
    outer = fdl.build(fdl.Config(f0, a=[part, part], b={'p': part}))
    built = outer.pos[0][0]
    if outer.pos[0][1] is not built or outer.pos[1]['p'] is not built:
      return False                     # one Partial instance -> one built callable
  if not isinstance(built, functools.partial):
    return False
  n_build = _nobj()
  results, counts = [], []
  for i, m in enumerate(masks):
    kw = {}
    extra = ()
    ov = o1 if i % 2 == 0 else o2
    if fn == 1:
      if m & 2:
        kw['c'] = ov
      if m & 4:
        extra = (ov + 1,)
    else:
      if m & 1:
        kw['b'] = ov
      if m & 2:
        kw['c'] = ov + 1
      if m & 4:
        kw['e'] = ov + 2
    before = _nobj()
    r = built(*extra, **kw)
    counts.append(_nobj() - before)
    results.append(r.rec if fn == 2 else r)
  # ---------------- reference model
  sigs.reset_log()
  rmemo = {}
  thunks = {n: ref_thunk(s, rmemo) for n, s in specs.items()}
  rn_build = _nobj()
  rresults, rcounts = [], []
  for i, m in enumerate(masks):
    ov = o1 if i % 2 == 0 else o2
    before = _nobj()
    if fn == 1:
      c = ov if m & 2 else thunks['c']()
      args = [thunks['a'](), thunks['b'](), thunks['e'](), v + 9] + ([ov + 1] if m & 4 else [])
      # evaluation order of factories is not part of the property: build the record from the pieces
      r = f1(args[0], args[1], *args[2:], c=c)
    else:
      kwargs = {}
      kwargs['a'] = thunks['a']()
      kwargs['b'] = ov if m & 1 else thunks['b']()
      kwargs['c'] = ov + 1 if m & 2 else thunks['c']()
      kwargs['e'] = ov + 2 if m & 4 else thunks['e']()
      if fn == 3:
        pos = kwargs.pop('a')
        r = f3(pos, a=v + 9, **kwargs)
        rcounts.append(_nobj() - before)
        rresults.append(r)
        continue
      r = FNS[fn](**kwargs)
      r = r.rec if fn == 2 else r
    rcounts.append(_nobj() - before)
    rresults.append(r)
  note('c04', fn, ka, kb, kc, ke, top, tuple(masks))
  if n_build != rn_build:
    return False          # nested Configs are built during fdl.build (once), factories are not invoked there
  if counts != rcounts:
    return False          # overridden factories are not invoked; everything else exactly once per call
  return canon(results) == canon(rresults)


def obligations(tier, seed):
  cubes = []
  for fn in range(4):
    for ka in range(NK):
      for kb in range(NK):
        if tier == 'quick' and (ka * NK + kb + fn) % 5:
          continue
        j = fn + ka + kb
        fix = dict(fn=fn, ka=ka, kb=kb, top=j % 2, ncalls=2 if tier == 'quick' else 3)
        if tier == 'quick':
          fix.update(ke=(ka + 2 * kb + 1) % NK, m1=(j * 3) % 8, m3=0)
        cubes.append(Cube(f'f{fn}_a{ka}_b{kb}', [], fix, est=NK * 8 if tier == 'quick' else NK * NK * 512))
  if tier != 'quick':
    # thorough: kc symbolic, ke and the first mask by cube
    cubes = []
    for fn in range(4):
      for ka in range(NK):
        for kb in range(NK):
          for ke in range(NK):
            if (ka + kb + ke + fn) % 4:
              continue
            cubes.append(Cube(f'f{fn}_a{ka}_b{kb}_e{ke}', [], dict(fn=fn, ka=ka, kb=kb, ke=ke, top=(ka + ke) % 2, ncalls=3,
                                                                m1=(ka + kb) % 8, m3=(kb + ke) % 8), est=NK * 8))
  t = 300 if tier == 'quick' else 900
  smoke = dict(fn=0, ka=2, kb=3, kc=6, ke=7, top=0, ncalls=3, m1=0, m2=5, m3=2, v=3, o1=50, o2=60)
  return [Obligation('c04_calls', c04_calls, cubes, timeout=t, path_timeout=40, smoke=smoke,
                     extra_smokes=[dict(smoke, fn=k % 4, ka=k, kb=(k + 4) % NK, kc=(k + 7) % NK, ke=(k + 9) % NK, top=k % 2,
                                        m1=k % 8, m2=(k + 3) % 8) for k in range(NK)])]
