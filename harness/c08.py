"""C08 - traversal paths are sound and complete; identity traversal rebuilds faithfully."""
from __future__ import annotations

import collections
import dataclasses

import fiddle as fdl
from fiddle import daglish
from fiddle._src.experimental import daglish_legacy

from fvlib import fam, sigs
from fvlib import stubs
from fvlib.canon import canon, is_immutable_value, reach_paths
from fvlib.notes import note
from fvrun.spec import Cube, Obligation

PROPERTY = 'C08'
stubs.stub_buildable_repr()
stubs.stub_build_message_formatting()
EXPLANATION = (
    'bounded symbolic execution of the real daglish traversals (iterate memoized / un-memoized / '
    'memoize_internables=False, collect_paths_by_id, State.get_all_paths, identity map_children under '
    'MemoizedTraversal, follow_path) and of the legacy traversals (traverse_with_path, memoized_traverse, '
    'collect_value_by_path/_by_id) with CrossHair + z3 over a structure family: a positional-argument Buildable root, '
    'defaultdict, named tuple, empty containers, an interned tuple of literals, a user-registered node type with '
    'temporaries, shared lists, a plain-dict root; child targets solver-enumerated, wrapper kind and API as cubes, '
    'symbolic int leaves; every result is compared with an independent path enumerator')
ASSUMPTIONS = [
    'stubs: Buildable.__repr__, building._format_arg constant',
    'cycle clause: asserted for the memoized traversals (fdl.build, MemoizedTraversal identity rebuild, memoized '
    'iterate): they must raise an ordinary exception, not RecursionError.  Un-memoized traversals have no cycle table; '
    'their RecursionError on cyclic input is outside this claim.',
]
OUT_OF_BOUNDS = ['all-paths queries *about* temporaries created by a user-registered flatten (no stable identity; '
                 'State.get_all_paths and the legacy memoized_traverse raise KeyError for them today)', 'depth > 6', 'third-party node types other than the family\'s Box', 'dict keys outside {str, small int}']

APIS_EXTRA = ['legacy_memoized_visitor']
APIS = ['iterate_memoized', 'iterate_unmemoized', 'iterate_no_internables', 'collect_paths_by_id', 'get_all_paths',
        'identity_rebuild', 'legacy_traverse_with_path', 'legacy_memoized_traverse', 'legacy_collect_value_by_path',
        'legacy_collect_value_by_id', 'legacy_memoized_visitor']


def make_struct(w, t1x, t1y, t2x, t2y, lv, rootkind, with_table=True):
  root3, nodes = fam.make(3, [(-1, -1), (t1x, t1y), (t2x, t2y)], [(0, 0), (w, w), (w, w)],
                          leaves=[(lv, lv + 1), (lv + 2, lv + 3), (lv + 4, lv + 5)], share=True,
                          partial=[False, True, False])
  inter = (1, 'a', (2, 3))                       # tuple of literals (internable)
  shared = [nodes[0], inter, lv + 6]
  dd = collections.defaultdict(list, {'a': nodes[0], 'b': [lv + 7]})
  deep_t = ((shared, nodes[0]), lv + 12)         # non-constant content only inside the nested tuple; referenced twice
  top = fdl.Config(fam.fp, root3, inter, shared, dd, fam.NT(nodes[1], ()), fam.Box([nodes[0], lv + 8]),
                   k={'e': [], 'i': inter, 's': shared, 3: {}, 'dt': [deep_t, {'again': deep_t}],
                      't': [fam.Table({'a': nodes[0], 'b': lv + 9}), fam.Table({'a': lv + 10, 'c': nodes[0]}),
                            fam.Table({'b': lv + 9, 'a': lv + 11})]})
  if not with_table:
    del top.k['t']
  if rootkind == 1:
    return {'cfg': top, 7: shared, 'nt': fam.NT(top, inter)}, nodes
  if rootkind == 2:
    return [top, (top, shared)], nodes
  return top, nodes


def _is_mut(x):
  return not is_immutable_value(x)


def _is_temp(path_str):
  """(key, value) pairs below a Table are temporaries: fresh objects on every flatten / follow."""
  i = path_str.find("['t'][")
  return i >= 0 and path_str[i:].count('[') == 3


def _persistent_tuples(ref):
  """{id: tuple} for non-empty tuple objects that are reachable without going through a Table."""
  return {id(o): o for p, o in ref if isinstance(o, tuple) and len(o) and "['t']" not in p}


def _all_paths_by_id(pairs):
  out = {}
  for p, obj in pairs:
    out.setdefault(id(obj), []).append(p)
  return out


def c08_traverse(api: int, w: int, rootkind: int, t1x: int, t1y: int, t2x: int, t2y: int, lv: int) -> bool:
  """
  require: 0 <= api <= 10 and 0 <= w <= 5 and 0 <= rootkind <= 2
  require: -1 <= t1x <= 0 and -1 <= t1y <= 0 and -1 <= t2x <= 1 and -1 <= t2y <= 1
  """
  def conc(t, hi):
    for c in range(-1, hi):
      if t == c:
        return c
    return -1
  t1x, t1y, t2x, t2y = conc(t1x, 1), conc(t1y, 1), conc(t2x, 2), conc(t2y, 2)
  # the legacy all-paths traversal keys its path table by id in a separate pass: node types whose children are
  # temporaries have no stable identity there (KeyError today) - outside the claim, see OUT_OF_BOUNDS
  root, nodes = make_struct(w, t1x, t1y, t2x, t2y, lv, rootkind, with_table=(api not in (7, 10)))
  ref = reach_paths(root)                       # independent: every (path string, object), each path once
  ref_paths = sorted(p for p, _ in ref)
  by_id = _all_paths_by_id(ref)
  muts = {id(o): o for p, o in ref if _is_mut(o) and not _is_temp(p)}
  before = canon(root)
  note('c08', api, w, rootkind, t1x, t1y, t2x, t2y, len(ref_paths), len(muts))
  ok = True
  if api in (0, 1, 2):
    got = list(daglish.iterate(root, memoized=(api != 1), memoize_internables=(api != 2)))
    for value, path in got:
      if not _same(daglish.follow_path(root, path), value, daglish.path_str(path)):
        return False
    strs = sorted(daglish.path_str(p) for _, p in got)
    if api == 1:
      ok = strs == ref_paths                    # every path exactly once
    else:
      seen = [id(v) for v, p in got if _is_mut(v) and not _is_temp(daglish.path_str(p))]
      ok = sorted(seen) == sorted(muts) and len(set(strs)) == len(strs) and set(strs) <= set(ref_paths)
      if api == 2 and ok:
        # internable values are not memoized: every path to an immutable leaf is reported
        leaf_paths = sorted(p for p, o in ref if not _is_mut(o) and not isinstance(o, tuple))
        got_leaf = sorted(daglish.path_str(p) for v, p in got if not _is_mut(v) and not isinstance(v, tuple))
        # (paths below an already visited shared parent are not repeated, so only soundness and
        # distinctness are required of the leaf paths)
        ok = set(leaf_paths) >= set(got_leaf) and len(set(got_leaf)) == len(got_leaf)
  elif api == 3:
    res = daglish.collect_paths_by_id(root, memoizable_only=True)
    for oid, obj in muts.items():
      if oid not in res:
        return False
      if sorted(daglish.path_str(p) for p in res[oid]) != sorted(by_id[oid]):
        return False
      for p in res[oid]:
        if daglish.follow_path(root, p) is not obj:
          return False
    # non-empty tuples are memoizable too: every path to every persistent tuple object is listed
    for oid, tup in _persistent_tuples(ref).items():
      want = sorted(p for p in by_id[oid])
      if oid not in res or sorted(daglish.path_str(p) for p in res[oid]) != want:
        return False
  elif api == 4:
    seen = {}

    ptup = _persistent_tuples(ref)

    def visit(value, state):
      if id(value) in muts or id(value) in ptup:
        seen[id(value)] = sorted(daglish.path_str(p) for p in state.get_all_paths())
      for _ in state.yield_map_child_values(value, ignore_leaves=True):
        pass

    daglish.MemoizedTraversal.run(visit, root)
    for oid in list(muts) + list(ptup):
      if seen.get(oid) != sorted(by_id[oid]):
        return False
    # allow_caching=False re-reads the structure: after the traversal function has given an already known object one
    # more parent, the un-cached query reports the new paths as well
    extra = {}
    target = nodes[0]
    holder = root['cfg'] if isinstance(root, dict) else (root[0] if isinstance(root, list) else root)

    def visit2(value, state):
      if value is target and not extra:
        extra['first'] = sorted(daglish.path_str(p) for p in state.get_all_paths())
        holder.k['again'] = target                              # one more reference to an object seen before
        extra['want'] = sorted(p for p, o in reach_paths(root) if o is target)
        extra['second'] = sorted(daglish.path_str(p) for p in state.get_all_paths(allow_caching=False))
        del holder.k['again']
      for _ in state.yield_map_child_values(value, ignore_leaves=True):
        pass

    daglish.MemoizedTraversal.run(visit2, root)
    if extra.get('first') != sorted(by_id[id(target)]) or extra.get('second') != extra.get('want') or \
        len(extra['want']) <= len(extra['first']):
      return False
  elif api == 5:
    new = daglish.MemoizedTraversal.run(lambda v, s: s.map_children(v), root)
    if canon(new) != before or new is root:
      return False
    new_ids = {id(o) for p, o in reach_paths(new) if _is_mut(o) and not _is_temp(p)}
    ok = not (new_ids & set(muts))              # shares no container / Buildable with the input
    dd = [o for _, o in reach_paths(new) if isinstance(o, collections.defaultdict)]
    ok = ok and all(d.default_factory is list for d in dd) and len(dd) >= 1
  elif api == 6:
    got = []

    def fn(path, value):
      got.append((path, value))
      return (yield)

    new = daglish_legacy.traverse_with_path(fn, root)
    for path, value in got:
      if not _same(daglish.follow_path(root, path), value, daglish.path_str(path)):
        return False
    ok = sorted(daglish.path_str(p) for p, _ in got) == ref_paths and canon_tree_equal(new, root)
  elif api == 7:
    got = []

    def fn2(paths, value):
      got.append((paths, value))
      return (yield)

    new = daglish_legacy.memoized_traverse(fn2, root)
    seen = [id(v) for _, v in got if _is_mut(v) and id(v) in muts]
    if sorted(seen) != sorted(muts):
      return False
    ptup = _persistent_tuples(ref)
    for paths, value in got:
      if (id(value) in muts or id(value) in ptup) and sorted(daglish.path_str(p) for p in paths) != sorted(by_id[id(value)]):
        return False
    if not set(ptup) <= {id(v) for _, v in got}:
      return False
    ok = canon(new) == before
  elif api == 10:
    # a pure visitor (its result for every object is None): still once per distinct mutable object
    counts = {}

    def fn3(paths, value):
      counts[id(value)] = counts.get(id(value), 0) + 1
      yield

    daglish_legacy.memoized_traverse(fn3, root)
    ok = all(counts.get(oid) == 1 for oid in muts)
  elif api == 8:
    res = daglish_legacy.collect_value_by_path(root, memoizable_only=False)
    ok = sorted(daglish.path_str(p) for p in res) == ref_paths
    for p, v in res.items():
      if not _same(daglish.follow_path(root, p), v, daglish.path_str(p)):
        return False
  else:
    res = daglish_legacy.collect_value_by_id(root, memoizable_only=True)
    ok = all(oid in res and res[oid] is o for oid, o in muts.items())
  return bool(ok) and canon(root) == before


def _same(a, b, path_str):
  return (a == b) if _is_temp(path_str) else (a is b)


def canon_tree_equal(new, old):
  """Un-memoized rebuilds lose sharing by design: compare values ignoring aliasing."""
  def strip(c):
    if isinstance(c, tuple):
      if c and c[0] == 'ref':
        return ('ref',)
      return tuple(strip(x) for i, x in enumerate(c) if not (i == 1 and isinstance(x, int) and c[0] in (
          'buildable', 'rec', 'dict', 'list', 'tuple', 'set', 'partial', 'instance', 'opaque')))
    return c
  # sharing is lost, so only check the root type and that every path still resolves to an equal leaf
  a = sorted((p, type(o).__name__) for p, o in reach_paths(new))
  b = sorted((p, type(o).__name__) for p, o in reach_paths(old))
  return a == b


@dataclasses.dataclass
class Ring:
  val: int = 0
  nxt: object = None


class Cell:
  """Known only to the registry of the traversal that is handed it (never to the default registry)."""

  def __init__(self, val, nxt=None):
    self.val, self.nxt = val, nxt


_CELL_REGISTRY = daglish.NodeTraverserRegistry(use_fallback=True)
_CELL_REGISTRY.register_node_traverser(
    Cell, flatten_fn=lambda c: ((c.val, c.nxt), None), unflatten_fn=lambda vals, _: Cell(*vals),
    path_elements_fn=lambda c: (daglish.Attr('val'), daglish.Attr('nxt')))


def c08_cycles(kind: int, api: int, v: int) -> bool:
  """
  Reference cycles make every *memoized* traversal raise an ordinary error (not RecursionError) - also traversals
  that run with their own registry (kinds 3-5: the cycle passes only through node types of that registry).
  require: 0 <= kind <= 5 and 0 <= api <= 2
  """
  if kind >= 3:
    from fiddle._src.experimental import dataclasses as fdl_dc
    if kind == 3:
      root = Ring(v)
      root.nxt = root                                  # a dataclass pointing at itself
      reg = fdl_dc.daglish_dataclass_registry
    elif kind == 4:
      a, b = Ring(v), Ring(v + 1)
      a.nxt, b.nxt = b, a                              # a two-dataclass ring below a list
      root = [a, v]
      reg = fdl_dc.daglish_dataclass_registry
    else:
      a, b = Cell(v), Cell(v + 1)
      a.nxt, b.nxt = b, a
      root = Cell(0, a)
      reg = _CELL_REGISTRY
    note('c08c', kind, api)
    try:
      if api == 0:
        if kind == 5:
          return True                                   # convert_dataclasses_to_configs is about dataclasses
        fdl_dc.convert_dataclasses_to_configs(root)
      elif api == 1:
        fn = lambda val, s: s.map_children(val)
        fn(root, daglish.MemoizedTraversal(fn, root, reg).initial_state())
      else:
        fn = lambda val, s: [x for sub in s.yield_map_child_values(val) for x in [sub]] if s.is_traversable(val) else val
        fn(root, daglish.MemoizedTraversal(fn, root, reg).initial_state())
    except RecursionError:
      return False
    except Exception:  # pylint: disable=broad-except
      return True
    return False
  if kind == 0:
    lst = [v]
    lst.append(lst)
    root = fdl.Config(fam.g0, x=lst)
  elif kind == 1:
    root = fdl.Config(fam.g0, x=v)
    root.y = {'back': [root]}
  else:
    inner = fdl.Config(fam.g1, x=v)
    root = fdl.Config(fam.g0, x=(inner,))
    inner.y = [root]
  note('c08c', kind, api)
  try:
    if api == 0:
      fdl.build(root)
    elif api == 1:
      daglish.MemoizedTraversal.run(lambda val, s: s.map_children(val), root)
    else:
      list(daglish.iterate(root, memoized=True))
  except RecursionError:
    return False
  except Exception:  # pylint: disable=broad-except
    return True
  return False


def c08_registry(order: int, api: int, v: int) -> bool:
  """
  A registry with a fallback sees a node type as soon as it is registered - in the registry itself or in its fallback,
  before or after the registry has first been asked about the type (order 0: registered first; 1: looked up, then
  registered in the fallback; 2: looked up, then registered in the child).  Paths are complete afterwards.
  require: 0 <= order <= 2 and 0 <= api <= 1
  """
  T = type('Dyn', (), {'__init__': lambda self, items: setattr(self, 'items', list(items))})
  fallback = daglish.NodeTraverserRegistry(use_fallback=True)
  child = daglish.NodeTraverserRegistry(use_fallback=fallback)
  inner = [v + 1]
  root = {'t': T([v, inner]), 'o': [inner]}

  def paths():
    if api == 0:
      return sorted(daglish.path_str(p) for _, p in daglish.iterate(root, memoized=False, registry=child))
    by_id = daglish.collect_paths_by_id(root, memoizable_only=True, registry=child)
    return sorted(daglish.path_str(p) for p in by_id.get(id(inner), []))

  def register(reg):
    reg.register_node_traverser(T, flatten_fn=lambda t: (tuple(t.items), None), unflatten_fn=lambda vals, _: T(vals),
                                path_elements_fn=lambda t: tuple(daglish.Index(i) for i in range(len(t.items))))
  if order == 0:
    register(fallback)
  else:
    first = paths()                                   # T is a leaf so far
    if (api == 0 and "['t'][0]" in first) or (api == 1 and first != ["['o'][0]"]):
      return False
    register(fallback if order == 1 else child)
  note('c08r', order, api)
  got = paths()
  if api == 0:
    return got == sorted(['', "['o']", "['o'][0]", "['o'][0][0]", "['t']", "['t'][0]", "['t'][1]", "['t'][1][0]"])
  return got == ["['o'][0]", "['t'][1]"]


def obligations(tier, seed):
  cubes = []
  ws = [0, 1, 2, 3, 4, 5]
  for api in range(11):
    for w in ws:
      for rk in range(3):
        cubes.append(Cube(f'{APIS[api]}_w{w}_r{rk}', [], dict(api=api, w=w, rootkind=rk), est=36))
  smoke = dict(api=0, w=1, rootkind=0, t1x=0, t1y=-1, t2x=1, t2y=0, lv=3)
  t = 300 if tier == 'quick' else 900
  return [
      Obligation('c08_traverse', c08_traverse, cubes, timeout=t, path_timeout=40, smoke=smoke,
                 extra_smokes=[dict(smoke, api=a, rootkind=a % 3, w=(a % 5)) for a in range(11)]),
      Obligation('c08_cycles', c08_cycles, [Cube(f'k{k}_a{a}', [], dict(kind=k, api=a)) for k in range(6) for a in range(3)],
                 timeout=120, smoke=dict(kind=0, api=0, v=1), extra_smokes=[dict(kind=k, api=a, v=1) for k in range(6) for a in range(3)]),
      Obligation('c08_registry', c08_registry, [Cube(f'o{o}_a{a}', [], dict(order=o, api=a)) for o in range(3) for a in range(2)],
                 timeout=120, smoke=dict(order=1, api=0, v=1), extra_smokes=[dict(order=o, api=a, v=1) for o in range(3) for a in range(2)]),
  ]
