"""C14 - tags select exactly the tagged arguments and survive every transformation."""
from __future__ import annotations

import copy
import pickle
from typing import Annotated

import fiddle as fdl
from fiddle import daglish
from fiddle import selectors
from fiddle._src import diffing
from fiddle._src import tagging

from fvlib import fam, sigs, jsonstub, tags2
from fvlib import stubs
from fvlib.canon import canon, buildables
from fvlib.notes import note
from fvrun.spec import Cube, Obligation

PROPERTY = 'C14'
stubs.stub_build_message_formatting()
stubs.stub_buildable_repr()
EXPLANATION = (
    'bounded symbolic execution of the real tagging.set_tagged / list_tags / add_tag / remove_tag / set_tags / '
    'clear_tags / TaggedValue, selectors.TagSelection.replace, Buildable flatten/unflatten/copy/deepcopy/pickle, '
    'fdl.cast, Serialization/Deserialization and diffing.build_diff/apply_diff (CrossHair + z3) on a three-node '
    'family whose eight argument sites (positional-only set / unset, *args element, keyword unset, **kwargs set / '
    'unset, annotated, keyword-only unset) all carry tag sets assigned by a solver-enumerated affine pattern over '
    'the hierarchy T0 <- T1 <- T2 and U; child targets, query tag and pattern are symbolic, API and transformation '
    'are cube parameters, the assigned value is an unbounded symbolic int; the oracle is an independent walker '
    'that reads the documented dunder attributes; auto_config.with_tags in six call forms (one tag, several, a collection, '
    'a collection followed by further tags) is checked against the tag sets it is given')
ASSUMPTIONS = ['stubs: building._format_arg, Buildable.__repr__ constant',
               'JSON transformation: the text stage (json.dumps/json.loads) is replaced by fvlib.jsonstub.jsonify '
               '(validated against the real text stage in every smoke run)',
               'pickle cubes: leaves realised first, range [0, 1]']
OUT_OF_BOUNDS = ['more than 3 Buildable nodes / 8 tagged sites', 'tags on *args indices beyond the current length '
                 '(cannot be assigned)', 'assigned values that are themselves Buildables']


class T0(fdl.Tag):
  """t0"""


class T1(T0):
  """t1"""


class T2(T1):
  """t2"""


class U(fdl.Tag):
  """u"""


TAGS = [T0, T1, T2, U]
TAGSETS = [(), (T0,), (T1,), (T2,), (U,), (T1, U, tags2.T1)]     # tags2.T1: unrelated tag, same short name


def fann(p: Annotated[int, T1] = 5, q: int = 6, *, z=None):
  return sigs.Rec('fann', (p, q), (), (z,), {})


SITES = ['root[0]', 'root[1]', 'root[4]', 'root.k', 'n0.extra', 'n0.seed', 'n1.p', 'n1.z']


def _concs(v, lo, hi):
  for c in range(lo, hi + 1):
    if v == c:
      return c
  return lo


def _make(t1, t2a, t2b, w, lv, base, stride, kwroot=False):
  """root = fp(n1|leaf, <unset b>, c=n0|n1|leaf, *[leaf, n0]); n1 = fann(p=leaf, q=wrap(n0)|leaf); n0 = fkw(x, y, extra=).

  kwroot=True (the diff transformation): the root is g3(x=n1|leaf, y=[leaf, n0]) - keyword arguments only, because
  build_diff cannot address positional arguments at all (known finding C10-diff-positional-arguments)."""
  n0 = fdl.Config(fam.fkw, x=lv, y=lv + 1, extra=lv + 2)
  n1 = fdl.Config(fann, p=lv + 3)
  n1.q = fam.wrap(w, n0) if t1 == 0 else lv + 4
  first = n1 if t2a == 1 else lv + 5
  cval = [lv + 6, n0, n1][t2b + 1]
  if kwroot:
    root = fdl.Config(fam.g3, x=first, y=[lv + 7, n0, cval])
    owners = [root, root, root, root, n0, n0, n1, n1]
    keys = ['x', 'z', 'y', 'z', 'extra', 'seed', 'p', 'z']
  else:
    root = fdl.Config(fam.fp, first)
    root.c = cval
    root[fdl.VARARGS:] = [lv + 7, n0]
    owners = [root, root, root, root, n0, n0, n1, n1]
    keys = [0, 1, 4, 'k', 'extra', 'seed', 'p', 'z']
  for i in range(8):
    for t in TAGSETS[(base + i * stride) % 6]:
      fdl.add_tag(owners[i], keys[i], t)
  return root, [n0, n1, root]


def _snapshot(root):
  """{id(node): (node, {key: value}, {key: frozenset(tags)})} for every reachable Buildable (independent walker)."""
  out = {}
  for b in buildables(root):
    out[id(b)] = (b, dict(b.__arguments__), {k: frozenset(v) for k, v in b.__argument_tags__.items() if v})
  return out


def _matches(tags, q):
  for t in tags:
    if issubclass(t, q):
      return True
  return False


def _check_set(root, before, q, v):
  """After set_tagged / replace: matching arguments of still-reachable nodes hold v, nothing else changed."""
  after = _snapshot(root)
  for nid, (node, args, tags) in after.items():
    if nid not in before:
      return False                      # the assigned value is a leaf: no new node can appear
    _, args0, tags0 = before[nid]
    if tags != tags0:
      return False                      # no tag has changed
    keys = set(args) | set(args0) | set(tags)
    for k in keys:
      if _matches(tags.get(k, ()), q):
        if k not in args or type(args[k]) is not type(v) or args[k] != v:
          return False
      else:
        if (k in args) != (k in args0):
          return False
        if k in args and args[k] is not args0[k]:
          return False
  return True


def _tagmap(root):
  return sorted((i, sorted(t.__name__ for t in tags), str(k)) for i, b in enumerate(buildables(root))
                for k, tags in b.__argument_tags__.items() if tags)


TR = ['none', 'copy.copy', 'copy.deepcopy', 'cast_partial', 'json', 'apply_diff', 'pickle', 'copy_with',
      'deepcopy_with', 'identity_traversal']


def _strip(cfg):
  for b in buildables(cfg):
    for k in list(b.__argument_tags__):
      fdl.clear_tags(b, k)


def _transform(tr, root, lv):
  """Returns the transformed configuration, or None when tags did not survive."""
  if tr == 0:
    return root
  want = canon(root)
  if tr == 1:
    c = copy.copy(root)
  elif tr == 2:
    c = copy.deepcopy(root)
  elif tr == 3:
    c = fdl.cast(fdl.Partial, root)
    cc = canon(c)
    return c if (cc[2] == 'Partial' and cc[3:] == want[3:]) else None
  elif tr == 4:
    c = jsonstub.roundtrip(root)
  elif tr == 5:
    c = copy.deepcopy(root)
    _strip(c)
    if isinstance(c.__arguments__.get('x'), list):
      c.y = lv - 77                     # (c14_annot's holder)
    else:
      c.x = lv - 77                     # plus one ordinary difference
    d = diffing.build_diff(c, root)
    diffing.apply_diff(d, c)
  elif tr == 6:
    c = pickle.loads(pickle.dumps(root))
  elif tr == 7:
    c = fdl.copy_with(root)
  elif tr == 8:
    c = fdl.deepcopy_with(root)
  else:
    c = daglish.MemoizedTraversal.run(lambda value, state: state.map_children(value), root)
  return c if canon(c) == want else None


def c14_set(api: int, tr: int, q: int, base: int, stride: int, t1: int, t2a: int, t2b: int, w: int, lv: int, v: int) -> bool:
  """
  require: 0 <= api <= 2 and 0 <= tr <= 9 and 0 <= q <= 3 and 0 <= base <= 5 and stride in (1, 5)
  require: -1 <= t1 <= 0 and 0 <= t2a <= 1 and -1 <= t2b <= 1 and 0 <= w <= 3
  """
  q, base = _concs(q, 0, 3), _concs(base, 0, 5)
  stride = 5 if stride == 5 else 1
  t1, t2a, t2b = _concs(t1, -1, 0), _concs(t2a, 0, 1), _concs(t2b, -1, 1)
  if tr == 6:
    import crosshair
    if not 0 <= lv <= 1:
      return True
    lv = crosshair.realize(lv)
  root, nodes = _make(t1, t2a, t2b, w, lv, base, stride, kwroot=(tr == 5))
  # ---- list_tags is the union over reachable Buildables (with and without superclasses)
  expect = set()
  for b in buildables(root):
    for tags in b.__argument_tags__.values():
      expect |= set(tags)
  if tagging.list_tags(root) != frozenset(expect):
    return False
  sup = set(expect)
  for t in expect:
    sup |= {c for c in t.__mro__ if c is not fdl.Tag and isinstance(c, type) and issubclass(c, fdl.Tag)}
  if tagging.list_tags(root, add_superclasses=True) != frozenset(sup):
    return False
  # ---- the transformation keeps arguments, tags and sharing
  tm = _tagmap(root)
  cfg = _transform(tr, root, lv)
  if cfg is None:
    return False
  if _tagmap(cfg) != tm or tagging.list_tags(cfg) != frozenset(expect):
    return False
  # ---- set / replace on the transformed configuration
  before = _snapshot(cfg)
  qt = TAGS[q]
  if api == 0:
    tagging.set_tagged(cfg, tag=qt, value=v)
  elif api == 1:
    selectors.select(cfg, tag=qt, check_nonempty=False).replace(v)
  else:
    selectors.select(cfg, tag=qt, check_nonempty=False).replace(v, deepcopy=False)
  note('c14', api, tr, q, base, stride, t1, t2a, t2b, w)
  return _check_set(cfg, before, qt, v)


OPS = ['add_tag', 'remove_tag', 'set_tags', 'clear_tags', 'assign TaggedValue', 'assign plain', 'del',
       'assign one TaggedValue object to two sites']


def c14_ops(o1: int, s1: int, g1: int, o2: int, s2: int, g2: int, o3: int, s3: int, g3: int, q: int, v: int) -> bool:
  """
  Three tag operations (add / remove / set / clear / assigning a TaggedValue / plain assignment / deletion) on the
  sites of one node against a dict-of-sets model; get_tags, list_tags and set_tagged agree with the model afterwards.
  require: 0 <= o1 <= 7 and 0 <= o2 <= 7 and 0 <= o3 <= 7 and 0 <= s1 <= 3 and 0 <= s2 <= 3 and 0 <= s3 <= 3
  require: 0 <= g1 <= 5 and 0 <= g2 <= 5 and 0 <= g3 <= 5 and 0 <= q <= 3
  """
  q = _concs(q, 0, 3)
  cfg = fdl.Config(fam.fp, v + 1, v + 2, k=fdl.Config(fann))
  cfg[fdl.VARARGS:] = [v + 3]
  keys = [0, 3, 'c', 'k']                 # positional-only, *args element, unset keyword, keyword holding a node
  model = {k: set() for k in keys}
  inner_model = {'p': {T1}}
  vals = {0: True, 3: True, 'c': False, 'k': True}
  for o, s, g in ((o1, s1, g1), (o2, s2, g2), (o3, s3, g3)):
    o, s, g = _concs(o, 0, 7), _concs(s, 0, 3), _concs(g, 0, 5)
    key = keys[s]
    ts = TAGSETS[g]
    try:
      if o == 0:
        for t in ts:
          fdl.add_tag(cfg, key, t)
        model[key] |= set(ts)
      elif o == 1:
        for t in ts:
          if t in model[key]:
            fdl.remove_tag(cfg, key, t)
            model[key].discard(t)
          else:
            try:
              fdl.remove_tag(cfg, key, t)
              return False                  # removing an absent tag must raise
            except ValueError:
              pass
      elif o == 2:
        fdl.set_tags(cfg, key, ts)
        model[key] = set(ts)
      elif o == 3:
        fdl.clear_tags(cfg, key)
        model[key] = set()
      elif o == 4:
        if ts:
          tv = fdl.TaggedValue(tags=ts, default=v - 9)
          if isinstance(key, int):
            cfg[key] = tv
          else:
            setattr(cfg, key, tv)
          model[key] |= set(ts)             # assigning a TaggedValue adds its tags and stores its value
          vals[key] = True
          stored = cfg[key] if isinstance(key, int) else getattr(cfg, key)
          if stored != v - 9:
            return False
      elif o == 7:
        if ts:
          tv = fdl.TaggedValue(tags=ts, default=v - 8)
          for kk in (key, keys[(s + 1) % 4]):      # the same TaggedValue object lands on two arguments
            if isinstance(kk, int):
              cfg[kk] = tv
            else:
              setattr(cfg, kk, tv)
            model[kk] |= set(ts)
            vals[kk] = True
      elif o == 5:
        if isinstance(key, int):
          cfg[key] = v - 5
        else:
          setattr(cfg, key, v - 5)
        vals[key] = True
      else:
        if key == 3:
          continue                          # deleting a *args element shifts indices (C03's subject)
        if isinstance(key, int):
          del cfg[key]
        elif vals[key]:
          delattr(cfg, key)
        vals[key] = False
    except Exception:  # pylint: disable=broad-except
      return False
    for k in keys:
      if fdl.get_tags(cfg, k) != frozenset(model[k]):
        return False
  note('c14o', o1, s1, g1, o2, s2, g2, o3, s3, g3, q)
  expect = set()
  for k in keys:
    expect |= model[k]
  if isinstance(cfg.__arguments__.get('k'), fdl.Buildable):
    expect |= {T1}
  if tagging.list_tags(cfg) != frozenset(expect):
    return False
  before = _snapshot(cfg)
  tagging.set_tagged(cfg, tag=TAGS[q], value=v)
  return _check_set(cfg, before, TAGS[q], v)


def c14_tagged_value(kind: int, how: int, w: int, q: int, v: int) -> bool:
  """
  A TaggedValue (directly as an argument or inside a list / tuple / dict / nested list) builds to its value, or makes
  the build fail if it never got one.
  kind: 0 Tag.new() unset, 1 Tag.new(v), 2 TaggedValue((T1, U)) unset, 3 TaggedValue((T1, U), v)
  how:  0 leave, 1 set_tagged(T0|U...), 2 select(tag).replace, 3 assign .value directly
  require: 0 <= kind <= 3 and 0 <= how <= 3 and 0 <= w <= 4 and 0 <= q <= 3
  """
  q = _concs(q, 0, 3)
  if kind == 0:
    tv = T1.new()
  elif kind == 1:
    tv = T1.new(v)
  elif kind == 2:
    tv = fdl.TaggedValue(tags=(T1, U))
  else:
    tv = fdl.TaggedValue(tags=(T1, U), default=v)
  tvtags = {T1} if kind < 2 else {T1, U}
  holder = [tv, [tv, 1], (tv,), {'k': tv}, [[tv]]][w]
  cfg = fdl.Config(fam.g1, x=holder, y=v + 1)
  has_value = kind in (1, 3)
  val = v
  if how == 1:
    tagging.set_tagged(cfg, tag=TAGS[q], value=v + 2)
    if _matches(tvtags, TAGS[q]):
      has_value, val = True, v + 2
  elif how == 2:
    selectors.select(cfg, tag=TAGS[q], check_nonempty=False).replace(v + 2)
    if _matches(tvtags, TAGS[q]):
      has_value, val = True, v + 2
  elif how == 3 and w != 0:
    tv.value = v + 3
    has_value, val = True, v + 3
  note('c14t', kind, how, w, q)
  # directly assigned TaggedValues are folded into the argument's tags
  if w == 0:
    if fdl.get_tags(cfg, 'x') != frozenset(tvtags):
      return False
  if tagging.list_tags(cfg) != frozenset(tvtags):
    return False
  sigs.reset_log()
  try:
    built = fdl.build(cfg)
  except Exception:  # pylint: disable=broad-except
    return not has_value and w != 0     # a value-less TaggedValue inside a container makes the build fail
  if w == 0:
    # folded: the argument x is simply unset (default None) or holds the value
    return built.pos[0] == (val if has_value else None)
  if not has_value:
    return False
  exp = [val, [val, 1], (val,), {'k': val}, [[val]]][w]
  return built.pos[0] == exp and type(built.pos[0]) is type(exp)


def c14_annot(ctor: int, g: int, q: int, tr: int, v: int) -> bool:
  """
  Annotation tags: Config(fann) carries T1 on p; a TaggedValue passed to the constructor or assigned later adds its
  tags to the annotation's; they survive copy / deepcopy / cast / JSON and are hit by set_tagged.
  require: 0 <= ctor <= 3 and 1 <= g <= 5 and 0 <= q <= 3 and 0 <= tr <= 5
  """
  q, g = _concs(q, 0, 3), _concs(g, 1, 5)
  ts = TAGSETS[g]
  if ctor == 0:
    cfg = fdl.Config(fann, p=fdl.TaggedValue(tags=ts, default=v))
  elif ctor == 1:
    cfg = fdl.Config(fann)
    cfg.p = fdl.TaggedValue(tags=ts, default=v)
  elif ctor == 2:
    cfg = fdl.Config(fann, fdl.TaggedValue(tags=ts, default=v))       # positionally
  else:
    cfg = fdl.Partial(fann, q=fdl.TaggedValue(tags=ts, default=v))
  key = 'q' if ctor == 3 else 'p'
  want = {'p': {T1}}
  want[key] = want.get(key, set()) | set(ts)
  outer = fdl.Config(fam.g2, x=[cfg], y=cfg)
  c = _transform(tr, outer, v)
  if c is None:
    return False
  node = c.y
  for k in ('p', 'q'):
    if fdl.get_tags(node, k) != frozenset(want.get(k, ())):
      return False
  before = _snapshot(c)
  tagging.set_tagged(c, tag=TAGS[q], value=v - 3)
  note('c14a', ctor, g, q, tr)
  return _check_set(c, before, TAGS[q], v - 3)


def c14_diff_positional(site: int, v: int) -> bool:
  """
  Tags on positional arguments survive diff application (positional-only parameter / *args element).
  require: 0 <= site <= 1
  """
  new = fdl.Config(fam.fp, v, v + 1, v + 2, v + 3, k=v)
  fdl.add_tag(new, 0 if site == 0 else 3, T1)
  old = fdl.Config(fam.fp, v, v + 1, v + 2, v + 3, k=v + 1)
  note('c14d', site)
  try:
    d = diffing.build_diff(old, new)
    diffing.apply_diff(d, old)
  except Exception:  # pylint: disable=broad-except
    return False
  return canon(old) == canon(new)


def _json_stub_ok():
  root, _ = _make(0, 1, 0, 1, 3, 2, 1)
  return jsonstub.validate(root)



# ----------------------------------------------------------------------------- with_tags inside auto_config (C14-m7)
from fiddle.experimental import auto_config as _ac  # pylint: disable=g-import-not-at-top
from fiddle._src.experimental import with_tags as _wt  # pylint: disable=g-import-not-at-top


@_ac.auto_config
def _wt0(v):
  return fam.g1(x=_wt.with_tags(v, T1), y=1)


@_ac.auto_config
def _wt1(v):
  return fam.g1(x=_wt.with_tags(v, T1, U), y=1)


@_ac.auto_config
def _wt2(v):
  return fam.g1(x=_wt.with_tags(v, [T1, U]), y=1)


@_ac.auto_config
def _wt3(v):
  return fam.g1(x=_wt.with_tags(v, [T1], U), y=1)


@_ac.auto_config
def _wt4(v):
  return fam.g1(x=_wt.with_tags(v, (T0, T1), U, T2), y=1)


@_ac.auto_config
def _wt5(v):
  return fam.g1(x=_wt.with_tags(v, (T0,), T2), y=_wt.with_tags(v + 1, U))


_WT = [(_wt0, {T1}, set()), (_wt1, {T1, U}, set()), (_wt2, {T1, U}, set()), (_wt3, {T1, U}, set()),
       (_wt4, {T0, T1, U, T2}, set()), (_wt5, {T0, T2}, {U})]


def c14_with_tags(form: int, q: int, v: int) -> bool:
  """
  auto_config.with_tags(value, tags, *more_tags) attaches every tag it is given - one tag, several positional tags, a
  collection, or a collection followed by further tags - and leaves the function's own result alone.
  require: 0 <= form <= 5 and 0 <= q <= 3
  """
  form, q = _concs(form, 0, 5), _concs(q, 0, 3)
  fn, xt, yt = _WT[form]
  cfg = fn.as_buildable(v)
  note('c14w', form, q)
  if fdl.get_tags(cfg, 'x') != frozenset(xt) or fdl.get_tags(cfg, 'y') != frozenset(yt):
    return False
  if tagging.list_tags(cfg) != frozenset(xt | yt):
    return False
  sigs.reset_log()
  direct = fn(v)
  sigs.reset_log()
  if fdl.build(cfg) != direct:
    return False
  before = _snapshot(cfg)
  tagging.set_tagged(cfg, tag=TAGS[q], value=v + 7)
  return _check_set(cfg, before, TAGS[q], v + 7)



def _two(x=None, y=None):
  return sigs.Rec('two', (x, y), (), (), {})


def c14_diff_callable(site: int, q: int, setz: bool, v: int) -> bool:
  """
  A diff that changes a node's callable and tags an argument (site 0: x, known to both callables; 1: z, a parameter of
  the new callable only; 2: both) applies, and the patched configuration carries exactly the tags of `new` (C14-m8).
  require: 0 <= site <= 2 and 0 <= q <= 3
  """
  site, q, setz = _concs(site, 0, 2), _concs(q, 0, 3), bool(setz)
  child = fdl.Config(_two, x=1, y=v)
  old = fdl.Config(fam.g1, x=child, y=[child])
  nchild = fdl.Config(fam.g3, x=1, y=v)
  if setz:
    nchild.z = v + 1
  if site in (0, 2):
    fdl.add_tag(nchild, 'x', TAGS[q])
  if site in (1, 2):
    fdl.add_tag(nchild, 'z', TAGS[q])
    fdl.add_tag(nchild, 'z', U)
  new = fdl.Config(fam.g1, x=nchild, y=[nchild])
  note('c14dc', site, q, setz)
  diff = diffing.build_diff(old, new)
  patched = copy.deepcopy(old)
  diffing.apply_diff(diff, patched)
  pc = patched.x
  for k in ('x', 'y', 'z'):
    if fdl.get_tags(pc, k) != fdl.get_tags(nchild, k):
      return False
  if tagging.list_tags(patched) != tagging.list_tags(new):
    return False
  return canon(patched) == canon(new) and patched == new


def obligations(tier, seed):
  assert _json_stub_ok(), 'jsonify stub disagrees with json.dumps/json.loads'
  cubes = []
  for api in range(3):
    for tr in range(10):
      if tier == 'quick':
        # structure fixed per cube (a rich member), query tag and pattern base symbolic
        fix = dict(api=api, tr=tr, stride=(1, 5)[(api + tr) % 2], w=1 + (api + tr) % 3, t1=0, t2a=(tr + 1) % 2,
                   t2b=(api + tr) % 3 - 1)
        if tr == 5:
          fix['lv'] = 3                     # diff alignment compares leaves pairwise: concrete leaves
        cubes.append(Cube(f'a{api}_t{tr}', [], fix, est=24))
      else:
        for stride in (1, 5):
          for w in (0, 1, 2, 3):
            cubes.append(Cube(f'a{api}_t{tr}_s{stride}_w{w}', [], dict(api=api, tr=tr, stride=stride, w=w, **({'lv': 3} if tr == 5 else {})),
                              est=4 * 6 * 12))
  ocubes = []
  for o1 in range(8):
    for o2 in range(8):
      for s1 in range(4):
        for s2 in range(4):
          if tier == 'quick' and (s1 != (o1 + o2) % 4 or s2 != (s1 + o2 % 2) % 4):
            continue
          fix = dict(o1=o1, o2=o2, s1=s1, s2=s2, g1=1 + (o1 + s1) % 5, g3=2 + (o2 % 3), s3=(s1 + (o1 % 2)) % 4)
          if tier == 'quick':
            fix['q'] = (o1 + o2) % 4
          ocubes.append(Cube(f'o{o1}{o2}_s{s1}{s2}', [], fix, est=42 * (1 if tier == 'quick' else 4)))
  tcubes = [Cube(f'k{k}_h{h}', [], dict(kind=k, how=h)) for k in range(4) for h in range(4)]
  acubes = [Cube(f'c{c}_t{tr}', [], dict(ctor=c, tr=tr, **({'v': 3} if tr == 5 else {}))) for c in range(4) for tr in range(6)]
  t = 300 if tier == 'quick' else 900
  smoke = dict(api=0, tr=0, q=0, base=1, stride=1, t1=0, t2a=1, t2b=0, w=1, lv=3, v=99)
  return [
      Obligation('c14_set', c14_set, cubes, timeout=t, path_timeout=40, smoke=smoke,
                 extra_smokes=[dict(smoke, api=a % 3, tr=a, q=a % 4, base=a % 6, stride=(1, 5)[a % 2]) for a in range(10)]),
      Obligation('c14_ops', c14_ops, ocubes, timeout=t, path_timeout=40,
                 smoke=dict(o1=0, s1=0, g1=2, o2=4, s2=2, g2=5, o3=1, s3=0, g3=2, q=0, v=7),
                 extra_smokes=[dict(o1=2, s1=1, g1=5, o2=3, s2=1, g2=0, o3=6, s3=3, g3=1, q=3, v=7)]),
      Obligation('c14_tagged_value', c14_tagged_value, tcubes, timeout=120, path_timeout=40,
                 smoke=dict(kind=1, how=0, w=1, q=0, v=4),
                 extra_smokes=[dict(kind=0, how=0, w=2, q=0, v=4), dict(kind=2, how=1, w=3, q=3, v=4),
                               dict(kind=0, how=0, w=0, q=0, v=4)]),
      Obligation('c14_annot', c14_annot, acubes, timeout=120, path_timeout=40, smoke=dict(ctor=0, g=4, q=0, tr=1, v=4),
                 extra_smokes=[dict(ctor=c, g=5, q=1, tr=c + 1, v=4) for c in range(4)] + [dict(ctor=0, g=4, q=0, tr=5, v=4)]),
      Obligation('c14_with_tags', c14_with_tags, [Cube(f'f{f}', [], dict(form=f)) for f in range(6)], timeout=120, path_timeout=40,
                 smoke=dict(form=3, q=3, v=4), extra_smokes=[dict(form=f, q=f % 4, v=4) for f in range(6)]),
      Obligation('c14_diff_callable', c14_diff_callable, [Cube(f's{x}_z{int(z)}', [], dict(site=x, setz=z)) for x in range(3) for z in (False, True)],
                 timeout=120, path_timeout=40, smoke=dict(site=1, q=1, setz=False, v=4),
                 extra_smokes=[dict(site=2, q=3, setz=True, v=4), dict(site=0, q=0, setz=False, v=4)]),
      Obligation('c14_diff_positional', c14_diff_positional, [Cube(f's{s}', [], dict(site=s)) for s in (0, 1)],
                 timeout=60, path_timeout=40, smoke=None),
  ]
