"""C09 - JSON serialization is lossless or loud, and policy-gated."""
from __future__ import annotations

import ast
import collections
import copy
import enum
import inspect
import json

import fiddle as fdl
from fiddle import daglish
from fiddle._src.experimental import serialization as ser

from fvlib import fam, sigs, jsonstub, rue_codec
from fvlib import stubs
from fvlib.canon import canon
from fvlib.notes import note
from fvrun.spec import Cube, Obligation

PROPERTY = 'C09'
stubs.stub_buildable_repr()
EXPLANATION = (
    'four obligations over the real serialization module (CrossHair + z3): (1a) dump_json -> json text -> load_json -> '
    'dump_json on a family with a boundary leaf-class set (51 values, incl. empty containers) in nine container positions, three Buildable '
    'kinds, tags, unset parameters and shared containers - a solver-enumerated bounded family, since the JSON text '
    'stage is C code; (1b) unbounded symbolic int / bool / short str leaves and sharing flags through the real '
    'Serialization and Deserialization classes with only the text stage replaced by the validated jsonify data-model '
    'stub; (2)+(3) documents with one pyref rewritten to a hostile target, deserialized under a recording policy whose '
    'answers are symbolic booleans, with importlib.import_module observed; (4) symbolic bytes (length <= 6) through the '
    'registered flatten / unflatten functions for bytes, with a validated pure-Python model of the codec plugged into '
    'CrossHair when the code uses raw_unicode_escape')
ASSUMPTIONS = ['"valid JSON" is judged by json.loads (accepts NaN / Infinity)',
               'jsonify stub = JSON data model without text; validated against json.dumps/json.loads on every concrete document of (1a)',
               'codec stub validated exhaustively against the C codec over the alphabet \\\\ u U 0 4 1 A f e-acute up to length 5 on every run']
OUT_OF_BOUNDS = ['str / int leaves outside the leaf-class set through the real JSON *text* (C code)', 'bytes longer than 6 (8 thorough)',
                 'yaml serialization', 'documents outside the family for the policy clause']


class Color(enum.Enum):
  RED = 1
  BLUE = 'b'


class Level(enum.IntEnum):
  HIGH = 3


class StrMode(str, enum.Enum):
  FAST = 'fast'


class Celsius(float):
  """a user subclass of a primitive"""


class T0(fdl.Tag):
  """t0"""


class DictObj:
  def __init__(self, a, b):
    self.a, self.b = a, b

  def __eq__(self, other):
    return type(other) is DictObj and (self.a, self.b) == (other.a, other.b)

  __hash__ = None


ser.register_dict_based_object(DictObj)


class Bag:
  """User type whose flatten hands out a fresh tuple on every call (serialization.register_node_traverser)."""

  def __init__(self, items):
    self._items = list(items)

  def __eq__(self, other):
    return type(other) is Bag and self._items == other._items

  __hash__ = None


ser.register_node_traverser(
    Bag, flatten_fn=lambda b: ((tuple(b._items),), None), unflatten_fn=lambda vals, _: Bag(vals[0]),
    path_elements_fn=lambda b: (daglish.Attr('items'),))


class Widget:
  def __init__(self, v=None):
    self.v = v


def widget(v=None):
  """Same name as the class up to CamelCase / snake_case."""
  return ('widget', v)
CONST = object()
MY_CONSTANT = CONST
ser.register_constant(__name__, 'MY_CONSTANT', compare_by_identity=True)


class Base:
  def __init__(self, v=None):
    self.v = v

  @classmethod
  def make(cls, v=None):
    return cls(v)


class Sub(Base):
  pass


def _twin(v):
  """A value that is == v and hashes alike but has another type / sign (or v itself)."""
  if v is True:
    return 1
  if v is False:
    return 0
  if type(v) is int and v in (0, 1):
    return bool(v)
  if type(v) is float and v == 0.0:
    return -v
  if type(v) is tuple:
    return fam.NT(*v) if len(v) == 2 else v
  return v


def danger(*a, **k):
  sigs.LOG.append(('danger', None))
  return 0


def _leaves():
  return [0, -1, 2**70, -2**70, 1.5, -0.0, float('inf'), float('-inf'), float('nan'), 5e-324, 1e308, 1 + 2j,
          '', 'a', "'", '"', '\\', '\n', '\x00', '\ud800', '\xe9ሴ\U0001f600',
          b'', b'\xff', b'\\u0041', b'\\U00000041x', b'\\', b'\\u00', True, False, None, Ellipsis, Color.RED, int, fam.g0,
          slice(1, None, 2), frozenset({1}), (1, (2,)), fdl.NO_VALUE, fam.NT(1, 2), MY_CONSTANT, range(3),
          bytearray(b'ab'), 10**400, 'x' * 70, -2**63, Color.BLUE,
          [], {}, set(), (), collections.defaultdict(list), Level.HIGH, StrMode.FAST, Celsius(1.5)]


NLEAF = len(_leaves())
CK = ['direct', 'list', 'tuple', 'dict value', 'dict key', 'set element', 'namedtuple', 'defaultdict', 'dict-based object',
      'frozenset element', 'nested list in dict in tuple', 'one list twice inside a dict-based object']


def _place(ck, v):
  if ck == 0:
    return v
  if ck == 1:
    return [v, 1]
  if ck == 2:
    return (v, 'z')
  if ck == 3:
    return {'k': v, 2: [v]}
  if ck == 4:
    return {v: 1}
  if ck == 5:
    return {v, 'other'}
  if ck == 6:
    return fam.NT(v, [v])
  if ck == 7:
    return collections.defaultdict(list, {'a': [v]})
  if ck == 8:
    return DictObj(v, [v])
  if ck == 9:
    return frozenset([v, 7])
  if ck == 11:
    shared = [v]
    return DictObj(shared, {'again': shared})       # the only references to `shared` sit below the dict-based object
  return ({'d': [[v], 3]},)


def _member(li, ck, kind, share, tagged):
  v = _leaves()[li]
  placed = _place(ck, v)
  inner = fdl.Config(fam.fkw, x=placed, extra=v if ck == 0 else 5)
  if tagged:
    fdl.add_tag(inner, 'y', T0)                 # value-less tagged argument stays unset
    fdl.add_tag(inner, 'x', T0)
  second = placed if share else copy.copy(placed) if isinstance(placed, (list, dict, set)) else placed
  if kind == 0:
    root = fdl.Config(fam.g1, x=inner, y=[second, inner])
  elif kind == 1:
    root = fdl.Partial(fam.g1, x=fdl.ArgFactory(fam.g0, x=placed), y=[second, inner])
  elif kind == 2:
    root = fdl.Config(fam.fp, inner, 2, 3, second, k={'i': inner})
  elif kind == 3:
    # two dicts whose key tuples are equal and hash alike but differ in key type / sign
    root = fdl.Config(fam.g1, x={v: [1], 'k': 2}, y={_twin(v): [1], 'k': 2}, z=[{1: 'a', 0: 'b'}, {True: 'a', False: 'b'}, inner])
  elif kind == 4:
    # callables: a classmethod inherited through a subclass, a classmethod of the defining class, a nested class
    root = fdl.Config(Sub.make, v=fdl.Config(Base.make, v=placed))
  else:
    # many objects of a user-registered type whose flatten creates temporaries; two callables whose names differ
    # only by CamelCase / snake_case
    # (a plain list as the root: the traversal then creates the temporaries back to back)
    root = [Bag([i, i + 1000]) for i in range(40)] + [fdl.Config(Widget, v=placed), fdl.Config(widget, v=1)]
  return root


def _sorted_sets(doc):
  """Normal form of a parsed document: items of set / frozenset objects sorted."""
  if isinstance(doc, list):
    return [_sorted_sets(x) for x in doc]
  if isinstance(doc, dict):
    out = {k: _sorted_sets(v) for k, v in doc.items()}
    t = out.get('type')
    if isinstance(t, dict) and t.get('name') in ('set', 'frozenset') and isinstance(out.get('items'), list):
      out['items'] = sorted(out['items'], key=lambda x: json.dumps(x, sort_keys=True))
    return out
  return doc


def c09_text(li: int, ck: int, kind: int, share: bool, tagged: bool) -> bool:
  """
  dump_json raises, or the text is valid JSON from which load_json rebuilds a canonically equal value (types, leaves,
  callables, tags, sharing, unset stays unset) without invoking anything, and a second dump gives the same document.
  require: 0 <= li < 54 and 0 <= ck <= 11 and 0 <= kind <= 5
  """
  import crosshair
  li, ck, kind = crosshair.realize(li), crosshair.realize(ck), crosshair.realize(kind)
  share, tagged = crosshair.realize(share), crosshair.realize(tagged)
  with crosshair.NoTracing():
    return _text_body(li, ck, kind, share, tagged)


def _text_body(li, ck, kind, share, tagged):
  try:
    root = _member(li, ck, kind, share, tagged)
  except TypeError:
    return True                       # unhashable leaf as dict key / set element: not a configuration
  before = canon(root)
  try:
    doc = ser.dump_json(root)
  except Exception:  # pylint: disable=broad-except
    note('c09t', li, ck, kind, share, tagged, 'dump raises')
    return canon(root) == before      # loud, and the input is untouched
  parsed = json.loads(doc)            # must be valid JSON
  if not jsonstub.validate(root):
    return False                      # (validates the data-model stub used by c09_sym on this document)
  sigs.reset_log()
  back = ser.load_json(doc)
  if sigs.LOG:
    return False                      # deserialization never invokes the configured callables
  note('c09t', li, ck, kind, share, tagged, 'round trip')
  if canon(back) != before:
    return False
  doc2 = ser.dump_json(back)
  same_doc = (json.dumps(_sorted_sets(json.loads(doc2)), sort_keys=True) ==
              json.dumps(_sorted_sets(parsed), sort_keys=True))      # (textual: NaN != NaN as values)
  return same_doc and canon(root) == before


def c09_sym(shape: int, share: bool, tagged: bool, i: int, s: str, b: bool) -> bool:
  """
  Unbounded symbolic int / bool and short symbolic str leaves, sharing flag symbolic: Serialization -> jsonify ->
  Deserialization gives back a canonically equal configuration.
  require: 0 <= shape <= 3 and len(s) <= 2
  """
  inner = fdl.Config(fam.fkw, x=i, y=[s, b], extra={'k': s})
  if tagged:
    fdl.add_tag(inner, 'x', T0)
    fdl.add_tag(inner, 'zz', T0)
  lst = [i, inner]
  other = lst if share else [i, inner]
  if shape == 0:
    root = fdl.Config(fam.g1, x=lst, y=other, z=(b, s))
  elif shape == 1:
    root = fdl.Partial(fam.g1, x=fdl.ArgFactory(fam.g0, x=lst), y={'o': other, 1: s})
  elif shape == 2:
    root = fdl.Config(fam.fp, i, s, b, lst, other, k=fam.NT(inner, s))
  else:
    root = fdl.Config(fam.g1, x={'a': lst, 'f': frozenset([1])}, y=slice(i, None, 2), z=other)
  before = canon(root)
  note('c09s', shape, bool(share), bool(tagged))
  sigs.reset_log()
  back = jsonstub.roundtrip(root)
  if sigs.LOG:
    return False
  return canon(back) == before and canon(root) == before


# ----------------------------------------------------------------------------- policy

TARGETS = [('os', 'system'), ('builtins', 'eval'), ('os.path', 'join'), ('fv_no_such_module_xyz', 'f'),
           ('fvlib.fam', 'Box'), ('harness.c09', 'danger'), ('builtins', 'list'), ('os', 'path.join')]
EVENTS = []


class _ImportlibProxy:
  def __init__(self, real):
    self._real = real

  def import_module(self, name, package=None):
    EVENTS.append(('import', name))
    return self._real.import_module(name, package)

  def __getattr__(self, name):
    return getattr(self._real, name)


class RecPolicy(ser.PyrefPolicy):
  """Answers come from two bit vectors; every question is logged."""

  def __init__(self, refuse_import, refuse_value):
    self.refuse_import, self.refuse_value = refuse_import, refuse_value
    self.n_i = self.n_v = 0

  def allows_import(self, module, symbol):
    ans = not (self.refuse_import == self.n_i)
    self.n_i += 1
    EVENTS.append(('ask_import', module, symbol, ans))
    return ans

  def allows_value(self, value):
    ans = not (self.refuse_value == self.n_v)
    self.n_v += 1
    EVENTS.append(('ask_value', None, None, ans))
    return ans


class EmptyAllowList(RecPolicy):
  """The same policy, but the object is falsy (think of an allow-list policy that holds no entries)."""

  def __len__(self):
    return 0


class AllowAll(ser.PyrefPolicy):
  def allows_import(self, module, symbol):
    return True

  def allows_value(self, value):
    return True


def _pyrefs(doc, out):
  if isinstance(doc, list):
    for x in doc:
      _pyrefs(x, out)
  elif isinstance(doc, dict):
    if doc.get('type') == 'pyref':
      out.append(doc)
    for v in doc.values():
      _pyrefs(v, out)
  return out


def c09_policy(which: int, target: int, ri: int, rv: int, warm: bool, falsy: bool) -> bool:
  """
  A well-formed document with pyref number `which` rewritten to TARGETS[target] (target 8: unchanged), loaded under a
  policy that refuses its ri-th allows_import question and its rv-th allows_value question (-1: never).  `warm`: the
  same document was loaded before under an allow-everything policy (no approval may carry over).  `falsy`: the policy
  object's truth value is False (it is still the supplied policy).
  require: 0 <= which <= 7 and 0 <= target <= 8 and -1 <= ri <= 8 and -1 <= rv <= 8
  """
  import crosshair
  which, target = crosshair.realize(which), crosshair.realize(target)
  inner = fdl.Config(fam.fkw, x=1, y=[2])
  fdl.add_tag(inner, 'x', T0)
  root = fdl.Partial(fam.g1, x=inner, y={'n': fam.NT(1, 2), 'e': Color.RED})
  with crosshair.NoTracing():
    doc = json.loads(ser.dump_json(root))
    refs = _pyrefs(doc, [])
    if which >= len(refs):
      return True
    if target < 8:
      refs[which]['module'], refs[which]['name'] = TARGETS[target]
    n_refs = len(refs)
    if warm:
      try:
        ser.Deserialization(copy.deepcopy(doc), AllowAll())
      except Exception:  # pylint: disable=broad-except
        pass
  real = ser.importlib
  ser.importlib = _ImportlibProxy(real)
  del EVENTS[:]
  sigs.reset_log()
  policy = (EmptyAllowList if falsy else RecPolicy)(ri, rv)
  outcome, result = 'returned', None
  try:
    result = ser.Deserialization(doc, policy).result
  except ser.PyrefPolicyError:
    outcome = 'policy_error'
  except Exception as e:  # pylint: disable=broad-except
    if type(e).__module__.startswith('crosshair'):
      raise
    outcome = 'other_error'
  finally:
    ser.importlib = real
  note('c09p', which, target, outcome, len(EVENTS), bool(warm))
  if sigs.LOG:
    return False                                   # nothing configured was invoked (danger never runs)
  # every import was approved immediately before; a refusal ends the load with PyrefPolicyError
  refused = False
  for idx, ev in enumerate(EVENTS):
    if refused:
      return False                                 # something happened after a refusal
    if ev[0] == 'import':
      prev = EVENTS[idx - 1] if idx else None
      if not prev or prev[0] != 'ask_import' or not prev[3] or prev[1] != ev[1]:
        return False
    elif not ev[3]:
      refused = True
  if refused and outcome != 'policy_error':
    return False
  if outcome == 'policy_error' and not refused:
    return False
  if outcome == 'returned':
    asked = [ev for ev in EVENTS if ev[0] == 'ask_import']
    values = [ev for ev in EVENTS if ev[0] == 'ask_value']
    # every pyref occurrence in the document was put to the policy, import and value
    if len(asked) < 1 or len(values) != len(asked):
      return False
    if target == 8 and canon(result) != canon(root):
      return False
  return True


def c09_default_policy(target: int) -> bool:
  """
  DefaultPyrefPolicy refuses builtins that are not serializable types, and never calls what it loads.
  require: 0 <= target <= 7
  """
  import crosshair
  target = crosshair.realize(target)
  with crosshair.NoTracing():
    root = fdl.Config(fam.g1, x=1)
    doc = json.loads(ser.dump_json(root))
    refs = _pyrefs(doc, [])
    refs[0]['module'], refs[0]['name'] = TARGETS[target]
    sigs.reset_log()
    try:
      ser.load_json(json.dumps(doc))
      out = 'returned'
    except ser.PyrefPolicyError:
      out = 'policy_error'
    except Exception:  # pylint: disable=broad-except
      out = 'other_error'
    note('c09d', target, out)
    if sigs.LOG:
      return False
    expect_refused = target in (0, 1)              # os.system (posix builtin), builtins.eval
    return (out == 'policy_error') == expect_refused


# ----------------------------------------------------------------------------- bytes

def _bytes_codec_names():
  """Codec names used by the registered traverser for bytes, read from the current source."""
  trav = ser.find_node_traverser(bytes)
  names = set()
  for fn in (trav.flatten, trav.unflatten):
    try:
      src = inspect.getsource(fn)
    except OSError:
      return None
    for m in __import__('re').finditer(r"(?:decode|encode)\(\s*['\"]([\w-]+)['\"]", src):
      names.add(m.group(1).lower().replace('-', '_'))
  return names


def c09_bytes(b: bytes) -> bool:
  """
  unflatten(flatten(b)) == b for the registered bytes traverser, or flatten raises.
  require: len(b) <= 8
  """
  trav = ser.find_node_traverser(bytes)
  try:
    values, meta = trav.flatten(b)
  except (UnicodeError, ValueError):
    return True
  back = trav.unflatten(values, meta)
  note('c09b', len(b))
  return back == b and type(back) is bytes


def c09_bytes_e2e(li: int) -> bool:
  """
  The same through the real dump_json / load_json for a few escape-like byte strings (concrete).
  require: 0 <= li <= 7
  """
  import crosshair
  li = crosshair.realize(li)
  with crosshair.NoTracing():
    v = [b'', b'\\u0041', b'\\U00000041', b'\\\\u0041', b'\xff\\u00e9', b'\\uD800', b'ab\\n', b'\\u00'][li]
    note('c09e', li)
    try:
      doc = ser.dump_json(fdl.Config(fam.g0, x=v, y=[v]))
    except Exception:  # pylint: disable=broad-except
      return True
    back = ser.load_json(doc)
    return back.x == v and back.y == [v]


def obligations(tier, seed):
  n, bad = rue_codec.validate(4 if tier == 'quick' else 5)
  assert bad == 0, f'codec stub disagrees with the C codec on {bad} of {n} strings'
  names = _bytes_codec_names()
  modelled = {'latin_1', 'latin1', 'iso8859_1', 'utf_8', 'utf8', 'ascii', 'raw_unicode_escape'}
  bytes_note = f'codec(s) used by the bytes traverser today: {sorted(names) if names else "?"}; stub validated on {n} strings'
  if names and 'raw_unicode_escape' in names:
    rue_codec.install_into_crosshair()
  tcubes = [Cube(f'l{li}_k{kind}', [], dict(li=li, kind=kind), est=44) for li in range(NLEAF) for kind in range(6)
            if tier != 'quick' or (li + kind) % 3 == 0 or li in (22, 23, 24, 25, 26, 46, 47, 48, 49, 50, 51, 52, 53)]
  scubes = [Cube(f's{s}_{int(sh)}', [], dict(shape=s, share=sh), est=30) for s in range(4) for sh in (False, True)]
  pcubes = [Cube(f'w{w}_t{t}', [], dict(which=w, target=t, falsy=bool((w + t) % 2) if tier == 'quick' else None), est=200)
            for w in range(8) for t in range(9) if tier != 'quick' or (w + t) % 3 == 0]
  for c in pcubes:
    if c.fix.get('falsy') is None:
      del c.fix['falsy']
  t = 300 if tier == 'quick' else 900
  obs = [
      Obligation('c09_text', c09_text, tcubes, timeout=t, path_timeout=60, enumerated=True,
                 smoke=dict(li=2, ck=3, kind=0, share=True, tagged=True),
                 extra_smokes=[dict(li=li, ck=li % 12, kind=li % 6, share=bool(li % 2), tagged=bool(li % 3)) for li in range(NLEAF)]),
      Obligation('c09_sym', c09_sym, scubes, timeout=t, path_timeout=60,
                 smoke=dict(shape=0, share=True, tagged=True, i=5, s='ab', b=True),
                 extra_smokes=[dict(shape=s, share=False, tagged=False, i=-3, s='', b=False) for s in range(4)]),
      Obligation('c09_policy', c09_policy, pcubes, timeout=t, path_timeout=60,
                 smoke=dict(which=0, target=8, ri=-1, rv=-1, warm=False, falsy=False),
                 extra_smokes=[dict(which=w, target=w, ri=w - 1, rv=(2 * w) % 9 - 1, warm=bool(w % 2), falsy=bool(w % 3 == 0)) for w in range(8)]),
      Obligation('c09_default_policy', c09_default_policy, [Cube(f't{k}', [], dict(target=k)) for k in range(8)],
                 timeout=60, enumerated=True, smoke=dict(target=2)),
      Obligation('c09_bytes_e2e', c09_bytes_e2e, [Cube(f'l{k}', [], dict(li=k)) for k in range(8)], timeout=60,
                 enumerated=True, smoke=dict(li=0)),
  ]
  if names is None or not names <= modelled:
    bytes_note += ' - NOT modelled by CrossHair or the stub: the search realises and the obligation is expected to stay inconclusive'
  if True:
    bcubes = [Cube('len_le6', ['len(b) <= 6'], {}, est=500)]
    if tier != 'quick':
      bcubes = [Cube(f'len{n_}', [f'len(b) == {n_}'], {}, est=500) for n_ in range(9)]
    obs.append(Obligation('c09_bytes', c09_bytes, bcubes, timeout=t, path_timeout=60, smoke=dict(b=b'ab\xff'),
                          bounds_note=bytes_note + ('; len(b) <= 8 in the thorough tier' if tier != 'quick' else '')))
  return obs
