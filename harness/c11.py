"""C11 - auto_config: building as_buildable() equals calling the function."""
from __future__ import annotations

import functools
import linecache
import sys
import types

import fiddle as fdl
from fiddle import arg_factory
from fiddle._src.experimental import auto_config as ac

from fvlib import sigs
from fvlib import stubs
from fvlib.canon import canon
from fvlib.notes import note
from fvrun.spec import Cube, Obligation

PROPERTY = 'C11'
stubs.stub_build_message_formatting()
stubs.stub_buildable_repr()
EXPLANATION = (
    'bounded symbolic execution of the real auto_config machinery (AST rewrite at decoration, closure re-wrapping, call / '
    'attribute handlers, exemption policy, inline, inlined_partial, arg_factory handling, with_tags) and of fdl.build '
    '(CrossHair + z3): a grammar-bounded family of programs is generated into a module on every run (each program '
    'exists decorated and undecorated), the program is the cube parameter and its int / bool arguments are unbounded '
    'symbolic values that flow through the rewritten function, Config construction and build; compared: canonical '
    'form (values, types, aliasing; callables observed by calling them twice) of fn(*args), of '
    'fdl.build(fn.as_buildable(*args)) and of the undecorated twin, and the invocation log during as_buildable')
ASSUMPTIONS = ['stubs: building._format_arg, Buildable.__repr__ constant',
               'callables in results (functools / arg_factory partials) are compared by calling them twice']
OUT_OF_BOUNDS = ['programs outside the generated family (grammar of DESIGN.md section 4, C11)',
                 'aliasing across repeated calls of a callable returned through inlined_partial (differs by design)']


class Leaf:
  def __init__(self, v=None):
    self.v = v
    sigs.LOG.append(('Leaf', None))


class Pair:
  def __init__(self, a=None, b=None, *, c=None):
    self.a, self.b, self.c = a, b, c
    sigs.LOG.append(('Pair', None))

  @classmethod
  def make(cls, a, b=None):
    return cls(a, b, c='made')


class Box:
  def __init__(self, *items, **named):
    self.items, self.named = items, named
    sigs.LOG.append(('Box', None))


class Seq:
  """A user class that happens to be sized, iterable and a container (structurally a collections.abc.Collection)."""

  def __init__(self, *items):
    self.items = list(items)
    sigs.LOG.append(('Seq', None))

  def __len__(self):
    return len(self.items)

  def __iter__(self):
    return iter(self.items)

  def __contains__(self, x):
    return x in self.items


class Remat:
  """A configurable class with a parameter spelled like the call handler's own first parameter."""

  def __init__(self, fn_or_cls=None, policy=None):
    self.fn_or_cls, self.policy = fn_or_cls, policy
    sigs.LOG.append(('Remat', None))


class LS(list):
  """A list subclass with its own constructor."""

  def __init__(self, items=()):
    super().__init__(items)
    sigs.LOG.append(('LS', None))


def mk(v, w=0):
  sigs.LOG.append(('mk', None))
  return Pair(v, w)


def helper(v):
  """Plain helper, used through auto_config.exempt: runs during as_buildable as well."""
  return [v, v]


class T0(fdl.Tag):
  """t0"""


# ----------------------------------------------------------------------------- program family

HEADER = '''
import functools
from fiddle import arg_factory
from fiddle._src.experimental import auto_config as ac
from fiddle._src.experimental.with_tags import with_tags
from harness.c11 import Leaf, Pair, Box, Seq, LS, Remat, mk, helper, T0
'''

# (name, decorator options, body lines).  Parameters are always (p, q=5, flag=False).
BODIES = [
    ('positional', '', ['return Pair(Leaf(p), q)']),
    ('keywords', '', ['return Pair(a=Leaf(p), b=q, c=Leaf(q))']),
    ('star_args', '', ['return Box(*[Leaf(p), Leaf(q)], n=Leaf(p))']),
    ('star_args_shared', '', ['xs = [Leaf(p), Leaf(q)]', 'return Box(*xs, n=xs[0])']),
    ('double_star', '', ["return Pair(Leaf(p), **{'b': Leaf(q), 'c': p})"]),
    ('shared_local', '', ['s = Leaf(p)', "return Pair(s, [s, q], c={'k': s})"]),
    ('literals', '', ["return Box([Leaf(p)], (Leaf(q), p), {'k': Leaf(p)})"]),
    ('function_call', '', ['return mk(mk(p), w=Leaf(q))']),
    ('functools_partial', '', ['return Pair(functools.partial(Leaf, p), functools.partial(Pair, a=Leaf(q), b=p))']),
    ('chained_partial', '', ['shared = Leaf(p)', 'base = functools.partial(Pair, a=shared)',
                             'full = functools.partial(base, b=q)', 'return Box(shared, full)']),
    ('arg_factory_partial', '', ['return Box(arg_factory.partial(Pair, a=functools.partial(Leaf, p), b=Leaf), Leaf(q))']),
    ('arg_factory_alternation', '', ['return arg_factory.partial(functools.partial(Pair, a=Leaf(p)), b=functools.partial(Leaf, q))']),
    ('calls_inlined', '', ['return Pair(inner_inline(p), inner_inline(q, 3))']),
    ('calls_not_inlined', '', ['return Pair(inner_noinline(p), [inner_noinline(q, 3)])']),
    ('inlined_partial', '', ['return Box(ac.inlined_partial(inner_inline, p), Leaf(q))']),
    ('exempt', '', ['return Pair(ac.exempt(helper)(p), Leaf(q))']),
    ('with_tags', '', ['return Pair(with_tags(Leaf(p), T0), b=with_tags(q, [T0]), c=[with_tags(p, T0)])']),
    ('lambda_value', '', ['return Pair(Leaf(p), (lambda v: v + 1)(q))']),
    ('lambda_call_inside', '', ['return Pair((lambda: Leaf(p))(), q)']),
    ('classmethod_call', '', ['return Pair.make(Leaf(p), q)']),
    ('nested_three', '', ['return Pair(Pair(Pair(Leaf(p), q), Leaf(q)), c=Box(Leaf(p), k=Pair(q)))']),
    ('reassign', '', ['x = Leaf(p)', 'x = Pair(x, x)', 'return Box(x, q, again=x)']),
    ('tuple_unpack', '', ['a, b = Leaf(p), Leaf(q)', 'return Pair(a, (b, a))']),
    ('if_stmt', 'experimental_allow_control_flow=True', ['if p > q:', '  v = Leaf(p)', 'else:', '  v = Pair(q)', 'return Box(v, v)']),
    ('if_expr', 'experimental_allow_control_flow=True', ['return Pair(Leaf(p) if flag else Pair(q), q)']),
    ('for_loop', 'experimental_allow_control_flow=True', ['v = Leaf(p)', 'for i in range(2):', '  v = Pair(v, i)', 'return v']),
    ('list_comp', 'experimental_allow_control_flow=True', ['xs = [Leaf(i + p) for i in range(3)]', 'return Box(*xs, first=xs[0])']),
    ('dict_comp', 'experimental_allow_control_flow=True', ["return Box(**{f'k{i}': Leaf(q) for i in range(2)})"]),
    ('default_used', '', ['return Pair(Leaf(q), q)']),
    ('collection_like_class', '', ['return Pair(Seq(Leaf(p), Leaf(q)), Seq())']),
    ('list_subclass', '', ['return Pair(LS([Leaf(p), q]), q)']),
    ('tagged_factory_reused', '', ['t = with_tags(functools.partial(Leaf, p), T0)',
                                   'return Box(arg_factory.partial(Pair, a=t), t, k=arg_factory.partial(Pair, b=t))']),
    ('keyword_named_like_handler_parameter', '', ['return Pair(Remat(fn_or_cls=Leaf(p), policy=q), Remat(Leaf(q)))']),
    ('shadowed_builtin_names', '', ['zip = Leaf', 'sorted = mk', 'return Pair(zip(p), [sorted(q), len])']),
    ('shadowed_builtin_in_comprehension', 'experimental_allow_control_flow=True',
     ['filter = Leaf', 'return Box(*[filter(i + p) for i in range(2)], m=max)']),
]


OUTER = [('pair', 'Pair({A}, q)', 'Pair(a={A}, b=q)', 'Pair(*[{A}, q])', "Pair(**{'a': {A}, 'b': q})"),
         ('box', 'Box({A}, {A})', 'Box(k={A}, j={A})', 'Box(*[{A}], *[q])', "Box(q, **{'k': {A}})"),
         ('fpartial', 'functools.partial(Pair, {A}, q)', 'functools.partial(Pair, a={A})', None, "functools.partial(Pair, **{'a': {A}})"),
         ('fn', 'mk({A}, q)', 'mk(v={A})', 'mk(*[{A}])', "mk(q, **{'w': {A}})"),
         ('inline', 'inner_inline({A}, q)', 'inner_inline(v={A})', 'inner_inline(*[{A}, q])', "inner_inline(**{'v': {A}})"),
         ('noinline', 'inner_noinline({A})', 'inner_noinline(v={A}, w=q)', None, None),
         ('classmethod', 'Pair.make({A}, q)', 'Pair.make(a={A})', None, None),
         ('in_list', 'Pair([{A}, q], ({A},))', "Pair(a={'k': [{A}]})", None, None)]
INNER = [('leaf', 'Leaf(p)'), ('pair', 'Pair(Leaf(p), q)'), ('partial', 'functools.partial(Leaf, p)'), ('list', '[Leaf(p), q]'),
         ('dict', "{'k': Leaf(q)}"), ('noinline', 'inner_noinline(p)'), ('inline', 'inner_inline(p, Leaf(q))'),
         ('exempt', 'ac.exempt(helper)(p)'), ('lambda', '(lambda: Leaf(p))()'), ('tagged', 'with_tags(Leaf(p), T0)'),
         ('shared', 'shared'), ('classmethod', 'Pair.make(Leaf(q))'), ('afp', 'arg_factory.partial(Pair, a=functools.partial(Leaf, p))')]
COMBOS = []
for _on, *_styles in OUTER:
  for _si, _tmpl in enumerate(_styles):
    if _tmpl is None:
      continue
    for _in, _expr in INNER:
      _body = (['shared = Leaf(p)'] if _in == 'shared' else []) + ['return ' + _tmpl.replace('{A}', _expr)]
      COMBOS.append((f'x_{_on}_{("pos", "kw", "star", "dstar")[_si]}_{_in}', '', _body))
BODIES = BODIES + COMBOS


def _source():
  lines = [HEADER]
  lines += ['@ac.auto_config', 'def inner_inline(v, w=1):', '  return Pair(Leaf(v), w)', '',
            '@ac.auto_config(experimental_always_inline=False)', 'def inner_noinline(v, w=1):', '  return Pair(Leaf(v), w)', '']
  for name, deco, body in BODIES:
    for variant in ('ac', 'plain'):
      if variant == 'ac':
        lines.append(f'@ac.auto_config({deco})' if deco else '@ac.auto_config')
      lines.append(f'def prog_{name}{"" if variant == "ac" else "__plain"}(p, q=5, flag=False):')
      lines += ['  ' + b for b in body]
      lines.append('')
  # closures: free variables sorting before / between / after the injected handler cells
  lines += ['def make_closure(A_before, __auto_config_b__, zz_after):',
            '  @ac.auto_config',
            '  def prog(p, q=5, flag=False):',
            '    return Box(Leaf(A_before + p), [__auto_config_b__, zz_after], k=Pair(q, A_before))',
            '  def plain(p, q=5, flag=False):',
            '    return Box(Leaf(A_before + p), [__auto_config_b__, zz_after], k=Pair(q, A_before))',
            '  return prog, plain',
            'prog_closure, prog_closure__plain = make_closure(100, "mid", (7, 8))',
            '',
            'def make_closure2(zz_only):',
            '  shared = Leaf(zz_only)            # a captured *object* (not configurable, shared by every call)',
            '  @ac.auto_config',
            '  def prog(p, q=5, flag=False):',
            '    return Pair(Leaf(p), [shared, shared])',
            '  def plain(p, q=5, flag=False):',
            '    return Pair(Leaf(p), [shared, shared])',
            '  return prog, plain',
            'prog_closure_object, prog_closure_object__plain = make_closure2(9)',
            '',
            '# closures next to attribute handlers: lower-case free variables, an attribute load in argument position and',
            '# an attribute store (two more handler cells besides the call handler)',
            'import types as _types',
            'def make_closure3(acts, layer_cls, zz):',
            '  @ac.auto_config',
            '  def prog(p, q=5, flag=False):',
            '    acts.tmp = q + acts.relu',
            '    x = layer_cls(Leaf(p), acts.relu, c=[zz, acts.gelu, acts.tmp])',
            '    return Box(x, acts.gelu, k=x)',
            '  def plain(p, q=5, flag=False):',
            '    acts.tmp = q + acts.relu',
            '    x = layer_cls(Leaf(p), acts.relu, c=[zz, acts.gelu, acts.tmp])',
            '    return Box(x, acts.gelu, k=x)',
            '  return prog, plain',
            'prog_closure_attrs, prog_closure_attrs__plain = make_closure3(_types.SimpleNamespace(relu=3, gelu="g"), Pair, (1, 2))',
            '',
            'def make_closure4(acts):',
            '  @ac.auto_config',
            '  def prog(p, q=5, flag=False):',
            '    return Pair(Leaf(p), acts.relu, c=acts)',
            '  def plain(p, q=5, flag=False):',
            '    return Pair(Leaf(p), acts.relu, c=acts)',
            '  return prog, plain',
            'prog_closure_attr_load, prog_closure_attr_load__plain = make_closure4(_types.SimpleNamespace(relu=3))',
            '',
            '# a free variable that is rebound in the enclosing scope after the decorator has run (late binding)',
            'def make_closure5():',
            '  width = 4',
            '  @ac.auto_config',
            '  def prog(p, q=5, flag=False):',
            '    return Pair(Leaf(p + width), [width, q])',
            '  def plain(p, q=5, flag=False):',
            '    return Pair(Leaf(p + width), [width, q])',
            '  width = 16',
            '  return prog, plain',
            'prog_closure_rebound, prog_closure_rebound__plain = make_closure5()',
            '',
            'class Holder:',
            '  @ac.auto_config',
            '  @staticmethod',
            '  def smake(p, q=5, flag=False):',
            '    return Pair(Leaf(p), Leaf(q))',
            '  @ac.auto_config',
            '  @classmethod',
            '  def cmake(cls, p, q=5, flag=False):',
            '    return Pair(Leaf(p), cls.__name__)',
            '  @staticmethod',
            '  def smake__plain(p, q=5, flag=False):',
            '    return Pair(Leaf(p), Leaf(q))',
            '  @classmethod',
            '  def cmake__plain(cls, p, q=5, flag=False):',
            '    return Pair(Leaf(p), cls.__name__)',
            'prog_staticmethod, prog_staticmethod__plain = Holder.smake, Holder.smake__plain',
            'prog_classmethod, prog_classmethod__plain = Holder.cmake, Holder.cmake__plain',
            '']
  return '\n'.join(lines) + '\n'


_MODNAME = 'harness._c11_generated'


def _load():
  if _MODNAME in sys.modules:
    return sys.modules[_MODNAME]
  src = _source()
  fname = '<c11 generated programs>'
  linecache.cache[fname] = (len(src), None, src.splitlines(True), fname)
  mod = types.ModuleType(_MODNAME)
  mod.__file__ = fname
  sys.modules[_MODNAME] = mod
  exec(compile(src, fname, 'exec'), mod.__dict__)  # pylint: disable=exec-used
  return mod


GEN = _load()
PROGRAMS = [n for n, _, _ in BODIES] + ['closure', 'closure_object', 'staticmethod', 'classmethod', 'closure_attrs',
                                         'closure_attr_load', 'closure_rebound']


SINGLE_CALL = {'inlined_partial'}
_CALLS = [2]


def _obs(x, memo):
  """Result graph with callables replaced by what two calls of them return (aliasing preserved)."""
  if id(x) in memo:
    return memo[id(x)][1]
  if isinstance(x, functools.partial):
    out = ['callable']
    memo[id(x)] = (x, out)
    out.extend([_obs(x(), memo) for _ in range(_CALLS[0])])
    return out
  if isinstance(x, (Leaf, Pair, Box, Seq, Remat)):
    out = [type(x).__name__]
    memo[id(x)] = (x, out)
    for k in sorted(vars(x)):
      out.append((k, _obs(vars(x)[k], memo)))
    return out
  if isinstance(x, list):
    out = []
    memo[id(x)] = (x, out)
    out.extend(_obs(v, memo) for v in x)
    return out
  if isinstance(x, dict):
    out = {}
    memo[id(x)] = (x, out)
    for k, v in x.items():
      out[k] = _obs(v, memo)
    return out
  if isinstance(x, tuple):
    return tuple(_obs(v, memo) for v in x)
  return x


def c11_program(prog: int, nargs: int, p: int, q: int, flag: bool) -> bool:
  """
  nargs: 1 -> fn(p) (q takes its default), 2 -> fn(p, q), 3 -> fn(p, q=q, flag=flag).
  require: 0 <= prog < 400 and 1 <= nargs <= 3
  """
  if prog >= len(PROGRAMS):
    return True
  name = PROGRAMS[prog]
  fn = getattr(GEN, 'prog_' + name)
  plain = getattr(GEN, 'prog_' + name + '__plain')
  if nargs == 1:
    args, kwargs = (p,), {}
  elif nargs == 2:
    args, kwargs = (p, q), {}
  else:
    args, kwargs = (p,), dict(q=q, flag=flag)
  note('c11', name, nargs)
  # inlined_partial: Python re-runs the whole inner function on every call, the Partial obtained by casting the inner
  # Config builds nested Configs once - sharing *across calls* of the returned callable differs by design, so the
  # callable is observed through one call only
  _CALLS[0] = 1 if name in SINGLE_CALL else 2
  sigs.reset_log()
  direct = fn(*args, **kwargs)
  n_direct = len(sigs.LOG)
  sigs.reset_log()
  twin = plain(*args, **kwargs)
  n_twin = len(sigs.LOG)
  sigs.reset_log()
  cfg = fn.as_buildable(*args, **kwargs)
  if sigs.LOG:
    return False                           # as_buildable invokes none of the configurable callables
  built = fdl.build(cfg)
  want = canon(_obs(direct, {}))
  if canon(_obs(twin, {})) != want or n_twin != n_direct:
    return False                           # the decorated function called directly behaves like the plain one
  return canon(_obs(built, {})) == want


def obligations(tier, seed):
  assert len(PROGRAMS) < 400, len(PROGRAMS)
  cubes = [Cube(f'{PROGRAMS[i]}_n{n}', [], dict(prog=i, nargs=n), est=4) for i in range(len(PROGRAMS)) for n in (1, 2, 3)
           ]
  smoke = dict(prog=0, nargs=2, p=3, q=4, flag=True)
  return [Obligation('c11_program', c11_program, cubes, timeout=120 if tier == 'quick' else 600, path_timeout=60, smoke=smoke,
                     extra_smokes=[dict(prog=i, nargs=1 + i % 3, p=7, q=2, flag=bool(i % 2)) for i in range(len(PROGRAMS))])]
