"""C07 - copies are faithful and independent (copy, deepcopy, pickle, cast)."""
from __future__ import annotations

import copy
import pickle
from typing import Annotated

import fiddle as fdl

from fvlib import fam, sigs
from fvlib import stubs
from fvlib.canon import canon, mutable_ids
from fvlib.notes import note
from fvrun.spec import Cube, Obligation

PROPERTY = 'C07'
stubs.stub_build_message_formatting()
stubs.stub_buildable_repr()
EXPLANATION = (
    'bounded symbolic execution of the real Buildable.__copy__/__deepcopy__/__getstate__/__setstate__, fdl.copy_with, '
    'fdl.deepcopy_with and fdl.cast (CrossHair + z3) on a DAG family with a positional-argument root, tags on keyword, '
    'positional and nested arguments and shared containers; child targets are solver-enumerated, the copy operation, '
    'wrapper kind and the two follow-up edits are cube parameters, leaves are unbounded symbolic ints (realised to a '
    'finite range in the pickle cubes); canonical forms and identity sets are compared before and after the edits')
ASSUMPTIONS = ['stubs: building._format_arg, Buildable.__repr__ constant',
               'pickle cubes: leaves realised before pickling (pickle cannot serialise a proxy), range [-2, 2]']
OUT_OF_BOUNDS = ['more than 4 nodes', 'unpicklable callables', 'more than 2 edits on the copy']


class T0(fdl.Tag):
  """t0"""


class T1(T0):
  """t1"""


class Opaque:
  """A mutable user object that daglish treats as a leaf."""

  def __init__(self, v):
    self.v = v


def gq(x=None, y=None, *, z=None, q=12):
  return sigs.Rec('gq', (x, y), (), (z, q), {})


def fann(p: Annotated[int, T1] = 5, q: Annotated[int, T0] = 6, r=7):
  return sigs.Rec('fann', (p, q, r), (), (), {})


OPS = ['copy.copy', 'copy.deepcopy', 'pickle2', 'pickle5', 'copy_with', 'deepcopy_with', 'cast_partial', 'cast_config']
DEEP = {1, 2, 3, 5}


def _make(w, t1x, t1y, t2x, t2y, lv, top_partial):
  root3, nodes = fam.make(3, [(-1, -1), (t1x, t1y), (t2x, t2y)], [(0, 0), (w, w), (w, w)],
                          leaves=[(lv, lv + 1), (lv + 2, lv + 3), (lv + 4, lv + 5)], share=True)
  # a Buildable all of whose arguments are daglish leaves, some of them mutable (set, bytearray, user object)
  leafy = fdl.Config(fam.g4, x={1, 2}, y=bytearray(b'ab'), z=Opaque(5))
  # annotation tags, one of them removed and one replaced before the copy is taken
  ann = fdl.Config(fann, r=lv)
  fdl.remove_tag(ann, 'p', T1)
  fdl.set_tags(ann, 'q', {T1})
  leafy.x.add(0)
  shared_list = [nodes[0], lv + 6, leafy, ann]
  ctor = fdl.Partial if top_partial else fdl.Config
  top = ctor(fam.fp, root3, lv + 7, shared_list, lv + 8, nodes[1], k=shared_list)
  fdl.add_tag(top, 'k', T0)
  fdl.add_tag(top, 0, T1)
  fdl.add_tag(top, 'c', T0)
  fdl.add_tag(nodes[2], 'x', T1)
  fdl.add_tag(nodes[0], 'z', T0)           # tagged argument without a value
  return top, nodes


def _do_copy(op, top, lv):
  if op == 0:
    return copy.copy(top)
  if op == 1:
    return copy.deepcopy(top)
  if op == 2:
    return pickle.loads(pickle.dumps(top, protocol=2))
  if op == 3:
    return pickle.loads(pickle.dumps(top, protocol=5))
  if op == 4:
    return fdl.copy_with(top, k=top.k)
  if op == 5:
    return fdl.deepcopy_with(top)
  if op == 6:
    return fdl.cast(fdl.Partial, top)
  return fdl.cast(fdl.Config, top)


def _edit(e, c, deep, v):
  """One edit on the copy.  Nested mutations only for deep copies (shallow copies share values)."""
  if e == 0:
    c.k = v
  elif e == 1:
    del c.k
  elif e == 2:
    c[1] = v
  elif e == 3:
    del c[fdl.VARARGS:]
  elif e == 4:
    fdl.add_tag(c, 'k', T1)
    fdl.remove_tag(c, 'c', T0)
  elif e == 5:
    fdl.clear_tags(c, 0)
    fdl.set_tags(c, 1, {T0})
  elif e == 6:
    if deep:
      c[0].x = v                      # nested node
      c[2].append(v)                  # nested container
      fdl.add_tag(c[0], 'y', T0)
  elif e == 7:
    c[fdl.VARARGS:] = [v, v]
  elif e == 9:
    if deep:
      leafy = c[2][2]
      leafy.x.add(7)                  # mutable leaves of a leaf-only Buildable
      leafy.y.extend(b'!')
      leafy.z.v = v
  elif e == 10:
    # a callable with a different signature, on a node of the (deep) copy only; update_callable rejects Buildables
    # holding positional arguments (NotImplementedError by design), so the top node is not a subject
    if deep:
      fdl.update_callable(c[0], gq)
      for val in c[0].__arguments__.values():
        if isinstance(val, fdl.Buildable):
          fdl.update_callable(val, gq)
  elif e == 8:
    if deep:
      inner = c[0]
      for key in list(inner.__arguments__):
        val = inner.__arguments__[key]
        if isinstance(val, fdl.Buildable):
          val.z = v
          fdl.clear_tags(val, 'z')


def _sigview(root):
  """What each Buildable reports through its signature: parameters with defaults, unset ones included."""
  from fvlib.canon import buildables
  out = []
  for b in buildables(root):
    args = fdl.ordered_arguments(b, include_defaults=True, include_unset=True)
    out.append((fdl.get_callable(b).__name__, tuple(str(k) for k in args), len(b[:])))
  return out


def _internal_ids(b):
  return {id(b.__arguments__), id(b.__argument_tags__), id(b.__argument_history__)} | \
      {id(s) for s in b.__argument_tags__.values()} | {id(l) for l in b.__argument_history__.values()}


def c07_copy(op: int, e0: int, e1: int, w: int, tp: bool, t1x: int, t1y: int, t2x: int, t2y: int, lv: int) -> bool:
  """
  require: 0 <= op <= 7 and 0 <= e0 <= 10 and 0 <= e1 <= 10 and 0 <= w <= 5
  require: -1 <= t1x <= 0 and -1 <= t1y <= 0 and -1 <= t2x <= 1 and -1 <= t2y <= 1
  """
  def conc(t, hi):
    for c in range(-1, hi):
      if t == c:
        return c
    return -1
  t1x, t1y, t2x, t2y = conc(t1x, 1), conc(t1y, 1), conc(t2x, 2), conc(t2y, 2)
  if op in (2, 3):
    import crosshair
    if not -2 <= lv <= 2:
      return True
    lv = crosshair.realize(lv)
  top, nodes = _make(w, t1x, t1y, t2x, t2y, lv, tp)
  snap = canon(top)
  sview = _sigview(top)
  sigs.reset_log()
  built_snap = canon(_call_if_partial(fdl.build(top)))
  c = _do_copy(op, top, lv)
  deep = op in DEEP
  # ---- faithful
  expect_type = {6: fdl.Partial, 7: fdl.Config}.get(op, type(top))
  if type(c) is not expect_type or c is top:
    return False
  cc = canon(c)
  if op in (6, 7):
    # same everything except the Buildable type of the top node
    if cc[3:] != snap[3:] or cc[2] != expect_type.__name__:
      return False
  elif cc != snap:
    return False
  # ---- independent
  if deep:
    a, b = mutable_ids(top), mutable_ids(c)
    for k in a:
      if k in b:
        return False
  else:
    if _internal_ids(top) & _internal_ids(c):
      return False
    for key, val in top.__arguments__.items():
      if c.__arguments__[key] is not val:
        return False                   # the argument values themselves stay shared
  # ---- edits on the copy never change the original
  for e, v in ((e0, lv - 50), (e1, lv - 60)):
    try:
      _edit(e, c, deep, v)
    except (AttributeError, ValueError, IndexError):
      pass      # the edit is invalid on the copy's current state (e.g. deleting twice): irrelevant here
  note('c07', op, e0, e1, w, tp, t1x, t1y, t2x, t2y)
  if canon(top) != snap or _sigview(top) != sview:
    return False
  sigs.reset_log()
  if canon(_call_if_partial(fdl.build(top))) != built_snap:
    return False
  # the (edited) copy still builds
  sigs.reset_log()
  try:
    _call_if_partial(fdl.build(c))
  except TypeError:
    pass      # e.g. a required positional cell was deleted by the edit - fine, it is the copy
  return True


def _call_if_partial(x):
  return x() if callable(x) and hasattr(x, 'func') else x


def c07_loud(op: int) -> bool:
  """
  Unpicklable callables (a lambda) make pickling fail loudly rather than produce a wrong copy.
  require: 2 <= op <= 3
  """
  cfg = fdl.Config(lambda x=1: x, x=2)
  note('c07l', op)
  try:
    c = pickle.loads(pickle.dumps(cfg, protocol=2 if op == 2 else 5))
  except Exception:  # pylint: disable=broad-except
    return True
  return canon(c) == canon(cfg)


def obligations(tier, seed):
  cubes = []
  ws = [1, 3] if tier == 'quick' else [0, 1, 2, 3, 4, 5]
  for op in range(8):
    for e0 in range(11):
      for e1 in range(11):
        if tier == 'quick' and (e0 * 11 + e1 + op) % 6:
          continue
        if op not in DEEP and (e0 in (6, 8, 9) and e1 in (6, 8, 9)):
          continue
        for w in ws:
          if tier == 'quick' and (w + e0 + op) % 2:
            continue
          cubes.append(Cube(f'o{op}_e{e0}_{e1}_w{w}', [], dict(op=op, e0=e0, e1=e1, w=w, tp=bool((op + e0) % 2)),
                            est=100 if op in (2, 3) else 36))
  smoke = dict(op=1, e0=6, e1=2, w=1, tp=False, t1x=0, t1y=-1, t2x=1, t2y=0, lv=1)
  t = 300 if tier == 'quick' else 900
  return [
      Obligation('c07_copy', c07_copy, cubes, timeout=t, path_timeout=40, smoke=smoke,
                 extra_smokes=[dict(smoke, op=o, e0=(o * 2) % 11, e1=(o + 5) % 11, tp=bool(o % 2)) for o in range(8)] +
                 [dict(smoke, op=o, e0=10, e1=4) for o in (0, 1, 2, 6)]),
      Obligation('c07_loud', c07_loud, [Cube(f'o{o}', [], dict(op=o)) for o in (2, 3)], timeout=60, smoke=dict(op=2)),
  ]
