"""C13 - the generated fiddler does what apply_diff does."""
from __future__ import annotations

import copy
import linecache
import sys
import types

import fiddle as fdl
from fiddle import daglish
from fiddle._src import diffing
from fiddle._src.codegen import codegen_diff

from fvlib import fam, sigs
from fvlib.canon import canon
from fvlib.notes import note
from fvrun.spec import Cube, Obligation
from harness import c10

PROPERTY = 'C13'
EXPLANATION = (
    'solver-enumerated bounded family (CrossHair + z3 enumerate and certify coverage of the selector space; the code '
    'generator needs concrete text, so the body runs on realised selectors under NoTracing): the (old, new) pairs of '
    'C10 (two of 14 edit kinds on a deep copy / a shallow copy sharing objects with old / an unrelated member) are '
    'diffed with build_diff, and eleven hand-assembled diff templates exercise references among new shared values '
    '(forward and backward, to whole shared values and to parts of them), from shared values into old paths, into moved and into replaced / deleted parts of old, '
    'swaps, and callable changes combined with tag operations; for every diff, both variable-naming modes and old '
    'supplied or not, the emitted fiddler is compiled and run on a deep copy of old and compared canonically with '
    'apply_diff on another deep copy (or both fail)')
ASSUMPTIONS = ['symbolic_leaves: false (text pipeline; realise-then-untrace)', 'the pair family is C10\'s (harness/c10.py)']
OUT_OF_BOUNDS = ['diffs outside the pair family and the templates', 'configurations with positional arguments (C10 known finding)']

_n = [0]


def _conc(v, lo, hi):
  for c in range(lo, hi + 1):
    if v == c:
      return c
  return lo


def _run_fiddler(code, cfg):
  _n[0] += 1
  fname = f'<c13 generated {_n[0]}>'
  linecache.cache[fname] = (len(code), None, code.splitlines(True), fname)
  mod = types.ModuleType(f'_c13_generated_{_n[0]}')
  exec(compile(code, fname, 'exec'), mod.__dict__)  # pylint: disable=exec-used
  mod.fiddler(cfg)


def _compare(diff, old, naming, give_old):
  """True iff the emitted fiddler and apply_diff agree on a copy of old."""
  a = copy.deepcopy(old)
  try:
    diffing.apply_diff(diff, a)
    want = ('ok', canon(a))
  except Exception:  # pylint: disable=broad-except
    want = ('raises',)
  try:
    code = codegen_diff.fiddler_from_diff(diff, old=old if give_old else None,
                                          variable_naming='explicit' if naming == 0 else 'short').code
  except Exception:  # pylint: disable=broad-except
    return want[0] == 'raises'          # cannot express it: acceptable only if apply_diff cannot apply it either
  b = copy.deepcopy(old)
  try:
    _run_fiddler(code, b)
    got = ('ok', canon(b))
  except Exception:  # pylint: disable=broad-except
    got = ('raises',)
  return got == want


def c13_pairs(mode: int, e1: int, e2: int, i1: int, i2: int, w: int, t1x: int, t2x: int, t2y: int, naming: int, give_old: bool) -> bool:
  """
  build_diff over the C10 pair family.
  require: 0 <= mode <= 2 and 0 <= e1 <= 15 and 0 <= e2 <= 15 and 0 <= i1 <= 2 and 0 <= i2 <= 2 and 0 <= w <= 5
  require: -1 <= t1x <= 0 and -1 <= t2x <= 1 and -1 <= t2y <= 1 and 0 <= naming <= 1
  """
  import crosshair
  mode, e1, e2, i1, i2, w = _conc(mode, 0, 2), _conc(e1, 0, 15), _conc(e2, 0, 15), _conc(i1, 0, 2), _conc(i2, 0, 2), _conc(w, 0, 5)
  t1x, t2x, t2y, naming, give_old = _conc(t1x, -1, 0), _conc(t2x, -1, 1), _conc(t2y, -1, 1), _conc(naming, 0, 1), bool(give_old)
  with crosshair.NoTracing():
    old, _ = c10._make(t1x, -1, t2x, t2y, w, 0)
    if mode == 0:
      new = copy.deepcopy(old)
    elif mode == 1:
      new = copy.copy(old)
    else:
      new, _ = c10._make(0, -1, t2y, t2x, (w + 1) % 6, 100)
    try:
      c10._edit(e1, new, i1, 200)
      c10._edit(e2, new, i2, 300)
    except (AttributeError, TypeError, KeyError):
      return True
    note('c13p', mode, e1, e2, i1, i2, w, t1x, t2x, t2y, naming, give_old)
    try:
      diff = diffing.build_diff(old, new)
    except Exception:  # pylint: disable=broad-except
      return True                              # C10's subject
    return _compare(diff, old, naming, give_old)


def _ref_old(*path):
  return diffing.Reference('old', tuple(path))


def _ref_new(i, *path):
  return diffing.Reference('new_shared_values', (daglish.Index(i),) + tuple(path))


A = daglish.Attr
TEMPLATES = ['shared value refers to an old path that is replaced', 'forward reference among shared values',
             'backward reference among shared values', 'swap two children by reference', 'salvage a child of a deleted subtree',
             'salvage a child of a replaced subtree into a new Config', 'callable change + tag on a parameter of the new callable',
             'shared Config holding a shared list (name order differs from dependency order)',
             'chain of references among shared values 0 -> 2 -> 1', 'old object with two parents: slot replaced through one, child salvaged through the other',
             'references into a part of a new shared value (child of a shared Config, element of a shared list)']


def _template(k):
  """(old, diff) for hand-assembled diff number k."""
  inner = fdl.Config(fam.g0, x=1, y=[2])
  mid = fdl.Config(fam.g1, x=inner, y=5)
  old = fdl.Config(fam.g2, x=mid, y=[7, 8])
  if k == 0:
    d = diffing.Diff(changes=(diffing.ModifyValue((A('x'),), 42), diffing.SetValue((A('z'),), _ref_new(0)),
                              diffing.ModifyValue((A('y'),), _ref_new(0))),
                     new_shared_values=([1, _ref_old(A('x'), A('x'))],))
  elif k == 1:
    d = diffing.Diff(changes=(diffing.SetValue((A('z'),), _ref_new(0)), diffing.ModifyValue((A('y'),), _ref_new(1))),
                     new_shared_values=([_ref_new(1)], fdl.Config(fam.g4, x=_ref_old(A('x')))))
  elif k == 2:
    d = diffing.Diff(changes=(diffing.SetValue((A('z'),), _ref_new(1)), diffing.ModifyValue((A('y'),), _ref_new(0))),
                     new_shared_values=([3], {'k': _ref_new(0), 'j': _ref_new(0)}))
  elif k == 3:
    d = diffing.Diff(changes=(diffing.ModifyValue((A('x'),), _ref_old(A('y'))), diffing.ModifyValue((A('y'),), _ref_old(A('x')))))
  elif k == 4:
    d = diffing.Diff(changes=(diffing.DeleteValue((A('x'),)), diffing.SetValue((A('z'),), _ref_old(A('x'), A('x')))))
  elif k == 5:
    d = diffing.Diff(changes=(diffing.ModifyValue((A('x'),), fdl.Config(fam.g4, x=_ref_old(A('x'), A('x')), y=[_ref_old(A('x'), A('x'), A('y'))])),))
  elif k == 6:
    old = fdl.Config(c10.two, x=mid, y=3)
    d = diffing.Diff(changes=(diffing.ModifyValue((daglish.BuildableFnOrCls(),), fam.g3), diffing.AddTag((A('z'),), c10.T1),
                              diffing.SetValue((A('z'),), 9), diffing.AddTag((A('x'),), c10.T0)))
  elif k == 7:
    d = diffing.Diff(changes=(diffing.SetValue((A('z'),), _ref_new(1)), diffing.ModifyValue((A('y'),), _ref_new(0))),
                     new_shared_values=([3, _ref_old(A('x'))], fdl.Config(fam.g0, x=_ref_new(0), y=_ref_new(0))))
  elif k == 8:
    d = diffing.Diff(changes=(diffing.SetValue((A('z'),), _ref_new(0)), diffing.ModifyValue((A('y'),), [_ref_new(2), _ref_new(1)])),
                     new_shared_values=([_ref_new(2), 0], {'k': 1}, fdl.Config(fam.g4, x=_ref_new(1), y=_ref_new(1))))
  elif k == 10:
    # build_diff only ever refers to a whole shared value; apply_diff resolves any path below it (C13-m8)
    d = diffing.Diff(changes=(diffing.SetValue((A('z'),), _ref_new(0, A('x'))), diffing.ModifyValue((A('y'),), [_ref_new(1, daglish.Index(1)), _ref_new(0)]),
                              diffing.ModifyValue((A('x'), A('y')), _ref_new(1))),
                     new_shared_values=(fdl.Config(fam.g4, x=fdl.Config(fam.g0, x=3), y=_ref_new(1, daglish.Index(1))), [0, [4]]))
  else:
    # `mid` is reachable as .x and as .y: its slot x is replaced through .x, its old child is salvaged through .y
    old = fdl.Config(fam.g2, x=mid, y=mid, z=[1])
    d = diffing.Diff(changes=(diffing.ModifyValue((A('x'), A('x')), 7), diffing.ModifyValue((A('z'),), _ref_old(A('y'), A('x'))),
                              diffing.ModifyValue((A('y'), A('x'), A('x')), 5)))
  return old, d


def c13_templates(k: int, naming: int, give_old: bool) -> bool:
  """
  Hand-assembled diffs (references among new shared values, into moved and replaced parts of old).
  require: 0 <= k <= 10 and 0 <= naming <= 1
  """
  import crosshair
  k, naming, give_old = _conc(k, 0, 10), _conc(naming, 0, 1), bool(give_old)
  with crosshair.NoTracing():
    old, d = _template(k)
    note('c13t', k, naming, give_old)
    return _compare(d, old, naming, give_old)


def obligations(tier, seed):
  cubes = []
  for mode in range(3):
    for e1 in range(16):
      for e2 in range(16):
        if tier == 'quick' and (e1 * 16 + e2 + mode) % 4:
          continue
        j = mode + e1 + e2
        fix = dict(mode=mode, e1=e1, e2=e2)
        if tier == 'quick':
          fix.update(w=j % 6, i2=j % 3, t1x=0)
        cubes.append(Cube(f'm{mode}_e{e1}_{e2}', [], fix, est=108))
  if tier != 'quick':
    cubes = [Cube(c.tag + f'_w{w}', c.pre, dict(c.fix, w=w), c.est * 6) for c in cubes for w in range(6)]
  t = 300 if tier == 'quick' else 1200
  return [
      Obligation('c13_pairs', c13_pairs, cubes, timeout=t, path_timeout=120, enumerated=True,
                 smoke=dict(mode=0, e1=0, e2=9, i1=1, i2=2, w=1, t1x=0, t2x=1, t2y=0, naming=0, give_old=True),
                 extra_smokes=[dict(mode=e % 3, e1=e, e2=(e + 5) % 16, i1=e % 3, i2=(e + 1) % 3, w=e % 6, t1x=0, t2x=1, t2y=0,
                                    naming=e % 2, give_old=bool(e % 3)) for e in range(16)]),
      Obligation('c13_templates', c13_templates, [Cube(f'k{k}', [], dict(k=k)) for k in range(11)], timeout=120,
                 enumerated=True, smoke=dict(k=3, naming=0, give_old=True)),
  ]
