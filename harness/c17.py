"""C17 - read-only and copy-returning APIs never modify their input."""
from __future__ import annotations

import copy

import fiddle as fdl
from fiddle import daglish
from fiddle import selectors
from fiddle import printing
from fiddle import graphviz as fdl_graphviz
from fiddle._src import diffing
from fiddle._src import tagging
from fiddle._src.codegen import legacy_codegen
from fiddle._src.codegen import new_codegen
from fiddle._src.codegen.auto_config import experimental_top_level_api
from fiddle._src.debug import grep as fdl_grep
from fiddle._src.experimental import serialization
from fiddle._src.experimental import transform
from fiddle._src.experimental import visualize
from fiddle._src.experimental import yaml_serialization
from fiddle._src.validation import baseline_style
from fiddle._src.validation import check_types
from fiddle._src.validation import no_custom_objects

from fvlib import fam, sigs
from fvlib.canon import canon, mutable_ids
from fvlib.notes import note
from fvrun.spec import Cube, Obligation

PROPERTY = 'C17'
EXPLANATION = (
    'bounded exploration of the real entry points (CrossHair + z3): the API (56 call forms over building, printing, '
    'rendering, serializing, diffing, validating, code generation, selection iteration, copying / casting, tag '
    'materialisation, history clearing, the visualize trimming helpers, tuple un-interning, Partial simplification) is '
    'the cube parameter; the configuration (shared nodes and containers, tags on keyword / positional / value-less '
    'arguments, positional-only and *args arguments, a 100-character string directly as an argument and inside a list, '
    'Config / Partial kinds, child targets) is solver-enumerated.  Core APIs run fully traced with unbounded symbolic '
    'int leaves; the text pipelines (printers, graphviz, yaml, code generators, grep) need concrete text and run as '
    'solver-enumerated bounded families (selectors realised, body under NoTracing).  Canonical form (callables, '
    'arguments, tags, sharing) and the identity set of every mutable object are compared before and after')
ASSUMPTIONS = ['text APIs: realise-then-untrace (symbolic_leaves: false); leaves concrete there',
               'graphviz.render only builds the Digraph object (no subprocess)']
OUT_OF_BOUNDS = ['configurations outside the family', 'APIs not in the table']

LONG = 'x' * 100


class T0(fdl.Tag):
  """t0"""


class T1(T0):
  """t1"""


def typed(a: int = 1, b: str = 'b', *, c: float = 0.5):
  return sigs.Rec('typed', (a, b), (), (c,), {})


def _conc(v, lo, hi):
  for c in range(lo, hi + 1):
    if v == c:
      return c
  return lo


def _member(t1, t2x, t2y, w, kp, lv):
  """root = fp(n1|leaf, <b unset>, c=n0, *[LONG-in-list, n0]); n1 = Partial|Config g1(x=wrap(n0), y=LONG direct, z tagged)."""
  n0 = fdl.Config(fam.fkw, x=lv, y=[lv + 1, LONG], extra=(1, 'a', (2, 3)))
  n1 = (fdl.Partial if kp else fdl.Config)(fam.g1, x=fam.wrap(w, n0) if t1 == 0 else lv + 2, y=LONG)
  n2 = fdl.Config(typed, a=lv, b=LONG)
  shared = [n0, lv + 3]
  first = [lv + 4, n1, n2][t2x + 1]
  root = fdl.Config(fam.fp, first)
  root.c = [shared, n2, n0][t2y + 1]
  root[fdl.VARARGS:] = [[LONG, lv + 5], shared]
  bare = fdl.Config(fam.g4)          # no argument values at all, only a tag on an unset parameter
  fdl.add_tag(bare, 'x', T1)
  # two more nodes whose only arguments are explicitly set to the parameter default
  dflt = [fdl.Config(fam.g5, y=None), fdl.Config(typed, c=0.5, a=1)]
  n2.c = 0.5
  root.k = {'s': shared, 'p': fdl.Partial(fam.g2), 't': (1, 'a', (2, 3)), 'tv': T1.new(lv + 6), 'bare': [bare, []],
            'dflt': dflt}
  fdl.add_tag(root, 0, T0)
  fdl.add_tag(root, 1, T1)          # value-less positional-only argument
  fdl.add_tag(root, 'k', T0)
  fdl.add_tag(n1, 'z', T1)          # value-less keyword-only argument
  fdl.add_tag(n0, 'extra', T0)
  fdl.add_tag(n2, 'b', T1)
  return root, [n0, n1, n2]


def _member_kw(t1, t2x, t2y, w, kp, lv):
  """The keyword-only variant: no positional arguments, every tagged argument has a value (what the diff, history,
  skeleton and code-generation APIs support)."""
  n0 = fdl.Config(fam.fkw, x=lv, y=[lv + 1, LONG], extra=(1, 'a', (2, 3)))
  n1 = (fdl.Partial if kp else fdl.Config)(fam.g1, x=fam.wrap(w, n0) if t1 == 0 else lv + 2, y=LONG, z=lv + 7)
  n2 = fdl.Config(typed, a=lv, b=LONG)
  shared = [n0, lv + 3]
  root = fdl.Config(fam.g3, x=[lv + 4, n1, n2][t2x + 1], y=[shared, n2, n0][t2y + 1])
  bare = fdl.Config(fam.g4)
  fdl.add_tag(bare, 'x', T1)
  dflt = [fdl.Config(fam.g5, y=None), fdl.Config(typed, c=0.5, a=1)]
  n2.c = 0.5
  root.z = {'s': shared, 'l': [LONG, lv + 5], 't': (1, 'a', (2, 3)), 'n1': n1, 'bare': [bare, []], 'dflt': dflt}
  fdl.add_tag(root, 'x', T0)
  fdl.add_tag(n1, 'z', T1)
  fdl.add_tag(n0, 'extra', T0)
  fdl.add_tag(n2, 'b', T1)
  return root, [n0, n1, n2]


def _other(root, lv):
  """A second configuration sharing objects with `root` by identity (for the diff APIs)."""
  o = copy.copy(root)
  if 'k' in root.__arguments__:
    o.k = {'s': root.k['s'], 'new': [lv]}
  else:
    o.z = {'s': root.z['s'], 'new': [lv], 'n1': root.z['n1']}
    o.x = lv
  return o


def _kname(c):
  return 'k' if 'k' in c.__arguments__ else 'x'


def _codegen_new(cfg):
  return new_codegen.new_codegen(cfg)


def _codegen_ac(cfg):
  return experimental_top_level_api.auto_config_codegen(cfg)


def _legacy(cfg):
  return '\n'.join(legacy_codegen.codegen_dot_syntax(cfg).lines())


def _identity_rebuild(cfg):
  return daglish.MemoizedTraversal.run(lambda v, s: s.map_children(v), cfg)


# (name, fn(cfg, nodes, lv), traced?)
APIS = [
    ('build', lambda c, n, v: fdl.build(c), True),
    ('repr', lambda c, n, v: repr(c), False),
    ('str', lambda c, n, v: str(c), False),
    ('as_str_flattened', lambda c, n, v: printing.as_str_flattened(c), False),
    ('as_str_flattened(raw)', lambda c, n, v: printing.as_str_flattened(c, raw_value_repr=True), False),
    ('as_dict_flattened', lambda c, n, v: printing.as_dict_flattened(c), False),
    ('history_per_leaf_parameter', lambda c, n, v: printing.history_per_leaf_parameter(c), False),
    ('graphviz.render', lambda c, n, v: fdl_graphviz.render(c), False),
    ('graphviz.render_diff', lambda c, n, v: fdl_graphviz.render_diff(old=c, new=_other(c, v)), False),
    ('dump_json', lambda c, n, v: serialization.dump_json(c), False),
    ('Serialization', lambda c, n, v: serialization.Serialization(c).result, True),
    ('dump_yaml', lambda c, n, v: yaml_serialization.dump_yaml(c), False),
    ('build_diff(old)', lambda c, n, v: diffing.build_diff(c, _other(c, v)), False),
    ('build_diff(new)', lambda c, n, v: diffing.build_diff(_other(c, v), c), False),
    ('skeleton_from_diff', lambda c, n, v: diffing.skeleton_from_diff(diffing.build_diff(c, _other(c, v))), False),
    ('check_types', lambda c, n, v: check_types.check_types(c), True),
    ('get_type_errors', lambda c, n, v: check_types.get_type_errors(c), True),
    ('get_config_errors', lambda c, n, v: no_custom_objects.get_config_errors(c), True),
    ('check_baseline_style', lambda c, n, v: baseline_style.check_baseline_style(c), False),
    ('new_codegen', lambda c, n, v: _codegen_new(c), False),
    ('auto_config_codegen', lambda c, n, v: _codegen_ac(c), False),
    ('legacy_codegen', lambda c, n, v: _legacy(c), False),
    ('select.iterate', lambda c, n, v: list(selectors.select(c, fam.fkw)), True),
    ('select.get', lambda c, n, v: list(selectors.select(c, fam.fkw).get('x')), True),
    ('select(tag).iterate', lambda c, n, v: list(selectors.select(c, tag=T0)), True),
    ('debug.grep', lambda c, n, v: fdl_grep.grep(c, 'x', output_fn=lambda *a, **k: None), False),
    ('cast', lambda c, n, v: fdl.cast(fdl.Partial, c), True),
    ('copy_with', lambda c, n, v: fdl.copy_with(c, **{_kname(c): v}), True),
    ('copy_with(TaggedValue)', lambda c, n, v: fdl.copy_with(c, **{_kname(c): T1.new(v)}), True),
    ('deepcopy_with', lambda c, n, v: fdl.deepcopy_with(c, **{_kname(c): v}), True),
    ('copy.copy', lambda c, n, v: copy.copy(c), True),
    ('copy.deepcopy', lambda c, n, v: copy.deepcopy(c), True),
    ('materialize_tags', lambda c, n, v: tagging.materialize_tags(c), True),
    ('materialize_tags(tags)', lambda c, n, v: tagging.materialize_tags(c, tags={T1}), True),
    ('materialize_tags(clear)', lambda c, n, v: tagging.materialize_tags(c, clear_field_tags=True), True),
    ('list_tags', lambda c, n, v: tagging.list_tags(c, add_superclasses=True), True),
    ('clear_argument_history', lambda c, n, v: serialization.clear_argument_history(c), True),
    ('trimmed', lambda c, n, v: visualize.trimmed(c, [n[0]]), True),
    ('with_defaults_trimmed', lambda c, n, v: visualize.with_defaults_trimmed(c), True),
    ('with_defaults_trimmed(deep)', lambda c, n, v: visualize.with_defaults_trimmed(c, remove_deep_defaults=True), True),
    ('depth_over', lambda c, n, v: visualize.depth_over(c, 1), True),
    ('structure', lambda c, n, v: visualize.structure(c), True),
    ('trim_fields_to', lambda c, n, v: visualize.trim_fields_to(c, ['c', 'k', 'x'], fields_by_config_id={id(n[0]): ['x'], id(n[2]): ['b']}), True),
    ('trim_long_fields', lambda c, n, v: visualize.trim_long_fields(c), False),
    ('unintern_tuples_of_literals', lambda c, n, v: transform.unintern_tuples_of_literals(c), True),
    ('replace_unconfigured_partials', lambda c, n, v: transform.replace_unconfigured_partials_with_callables(c), True),
    ('daglish.iterate', lambda c, n, v: list(daglish.iterate(c)), True),
    ('identity_rebuild', lambda c, n, v: _identity_rebuild(c), True),
    ('==', lambda c, n, v: (c == copy.deepcopy(c), c != n[0]), True),
    ('ordered_arguments', lambda c, n, v: fdl.ordered_arguments(c, include_defaults=True), True),
    ('graphviz.render(max_depth, max_str_length)', lambda c, n, v: fdl_graphviz.render(c, max_depth=10, max_str_length=20), False),
    ('graphviz.render(max_depth=1)', lambda c, n, v: fdl_graphviz.render(c, max_depth=1, max_str_length=20), False),
    ('cast(same type) + edit result', lambda c, n, v: _edit_result(fdl.cast(type(c), c), v), True),
    ('cast(Partial) + edit result', lambda c, n, v: _edit_result(fdl.cast(fdl.Partial, c), v), True),
    ('edit_copy_with_result', lambda c, n, v: _edit_result(fdl.copy_with(c), v), True),
    ('edit_trimmed_result', lambda c, n, v: _edit_result(visualize.with_defaults_trimmed(c), v), True),
]


def _edit_result(res, v):
  """Edits on a returned copy (tags, arguments) must not reach the input either."""
  if 'k' in res.__arguments__:
    fdl.add_tag(res, 'k', T1)
    fdl.remove_tag(res, 0, T0)
    res.c = v
    res[1] = v
  else:
    fdl.add_tag(res, 'x', T1)
    fdl.remove_tag(res, 'x', T0)
    res.y = v
  return res


def _ids(root):
  return set(mutable_ids(root))


def c17_api(api: int, kw: bool, t1: int, t2x: int, t2y: int, w: int, kp: bool, lv: int) -> bool:
  """
  require: 0 <= api < 56 and -1 <= t1 <= 0 and -1 <= t2x <= 1 and -1 <= t2y <= 1 and 0 <= w <= 5
  """
  t1, t2x, t2y, w = _conc(t1, -1, 0), _conc(t2x, -1, 1), _conc(t2y, -1, 1), _conc(w, 0, 5)
  name, fn, traced = APIS[api]
  if not traced:
    import crosshair
    if not 0 <= lv <= 1:
      return True
    lv = crosshair.realize(lv)
    kp = crosshair.realize(kp)
    kw = crosshair.realize(kw)
  root, nodes = (_member_kw if kw else _member)(t1, t2x, t2y, w, bool(kp), lv)
  before = canon(root)
  ids = _ids(root)
  outcome = 'returned'
  if traced:
    try:
      fn(root, nodes, lv - 9)
    except Exception:  # pylint: disable=broad-except
      outcome = 'raised'
  else:
    import crosshair
    with crosshair.NoTracing():
      try:
        fn(root, nodes, lv - 9)
      except Exception:  # pylint: disable=broad-except
        outcome = 'raised'
  note('c17', name, bool(kw), t1, t2x, t2y, w, bool(kp), outcome)
  return canon(root) == before and _ids(root) == ids


def obligations(tier, seed):
  cubes = []
  for a, (name, _, traced) in enumerate(APIS):
    for w in ((a % 6,) if tier == 'quick' else range(6)):
      cubes.append(Cube(f'{a:02d}_w{w}', [], dict(api=a, w=w), est=36 if traced else 72))
  t = 300 if tier == 'quick' else 900
  smoke = dict(api=0, kw=False, t1=0, t2x=0, t2y=1, w=1, kp=True, lv=1)
  return [Obligation('c17_api', c17_api, cubes, timeout=t, path_timeout=60, smoke=smoke,
                     extra_smokes=[dict(smoke, api=a, kw=k, w=a % 6, t2x=a % 3 - 1, kp=bool(a % 2)) for a in range(len(APIS)) for k in (False, True)])]
