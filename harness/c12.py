"""C12 - generated Python code reproduces the configuration."""
from __future__ import annotations

import enum
import linecache
import math
import sys
import types

import fiddle as fdl
from fiddle._src.codegen import new_codegen
from fiddle._src.codegen import py_val_to_cst_converter
from fiddle._src.codegen.auto_config import experimental_top_level_api as ac_codegen

from fvlib import fam, sigs
from fvlib.usermods import auto_config as usermods_auto_config
from fvlib.canon import canon
from fvlib.notes import note
from fvrun.spec import Cube, Obligation

PROPERTY = 'C12'
EXPLANATION = (
    'solver-enumerated bounded family (CrossHair + z3 enumerate the selector space and certify it is covered; the code '
    'generators need concrete text, so selectors are concretised by comparisons and the pipeline runs under NoTracing): '
    'new_codegen.new_codegen and auto_config_codegen over a configuration family (Config / Partial / ArgFactory inside '
    'Partial, shared nodes and shared list / dict / tuple containers, nested tuples, tags with values - one or two per '
    'argument -, enum / type / function leaves, a boundary leaf set), every max_expression_complexity in {None, 0, 1, 2, '
    '3}, include_history on / off, and sub-fixture subsets; the emitted module is compiled, executed and its fixture '
    'called; second obligation: convert_py_val_to_cst on the leaf set and its list / tuple / dict / set / dict-key nestings')
ASSUMPTIONS = ['symbolic_leaves: false (text pipeline; realise-then-untrace)',
               'the generated module is compiled with a linecache entry so that auto_config can read its source']
OUT_OF_BOUNDS = ['configurations with tagged arguments lacking values (excluded by the property)', 'legacy_codegen',
                 'configurations outside the family']


class Color(enum.Enum):
  RED = 1
  BLUE = 'b'


class Outer:
  class Mode(enum.Enum):
    FAST = 1


class Mode(enum.Enum):        # same simple name as the nested enum, different values
  FAST = 'global-fast'


class T0(fdl.Tag):
  """t0"""


class T1(fdl.Tag):
  """t1"""


def fva(a=5, *args, k=0):
  """A positional-or-keyword parameter in front of *args: *args values are stored under indices that start at 1."""
  return ('fva', a, args, k)


def _conc(v, lo, hi):
  for c in range(lo, hi + 1):
    if v == c:
      return c
  return lo


LEAVES = [0, -7, 2**70, 1.5, -0.0, 1e308, 5e-324, float('inf'), float('-inf'), float('nan'), 1 + 2j, 1 - 2j, 2j, '', 'a',
          "it's", 'say "x"', 'back\\slash', 'line\nbreak', '\x00', 'é☃', b'', b'\xff\\u0041', True, None, Ellipsis, Color.RED,
          Outer.Mode.FAST, int, fam.g0, fam.A, slice(1, None, 2), (1, (2,)), frozenset({1}), {1, 2}, fam.NT(1, 2), range(3),
          'dos\r\nline', 'old mac\rline\n', usermods_auto_config.user_fn]
NLEAF = len(LEAVES)
_n = [0]


def _run_module(code, use_as_buildable, name='config_fixture'):
  _n[0] += 1
  fname = f'<c12 generated {_n[0]}>'
  linecache.cache[fname] = (len(code), None, code.splitlines(True), fname)
  mod = types.ModuleType(f'_c12_generated_{_n[0]}')
  mod.__file__ = fname
  sys.modules[mod.__name__] = mod
  try:
    exec(compile(code, fname, 'exec'), mod.__dict__)  # pylint: disable=exec-used
    fx = getattr(mod, name)
    return fx.as_buildable() if use_as_buildable else fx()
  finally:
    del sys.modules[mod.__name__]


def _member(shape, li, w, tag, two_tags):
  """A configuration; `li` picks the designated leaf, `w` the wrapper kind, `shape` the graph."""
  leaf = LEAVES[li]
  n0 = fdl.Config(fam.g0, x=leaf, y=[1, 'a'])
  if tag:
    fdl.add_tag(n0, 'x', T0)
    if two_tags:
      fdl.add_tag(n0, 'x', T1)
      fdl.add_tag(n0, 'y', T1)
  if shape == 0:
    root = fdl.Config(fam.g1, x=fam.wrap(w, n0), y=leaf)
  elif shape == 1:
    shared = fam.wrap(w, n0) if w else [n0, 2]
    root = fdl.Config(fam.g1, x=shared, y={'k': shared, 'n': n0}, z=(n0, [shared]))           # shared node and container
  elif shape == 2:
    root = fdl.Partial(fam.g1, x=fdl.ArgFactory(fam.g0, x=fam.wrap(w, leaf)), y=fdl.Partial(fam.g2, x=n0), z=fdl.ArgFactory(fam.A, x=n0))
  elif shape == 3:
    t = ([n0, 'embed'], 'heads')                                                              # tuple without direct Buildable
    if w % 2:
      root = fdl.Config(fam.g1, x=t, y=fdl.Config(fam.g3, y=t), z=fdl.Config(fam.g2, x=[t]))   # parents at different depths
    else:
      root = fdl.Config(fam.g1, x=t, y=fdl.Config(fam.g2, x=t))
  elif shape == 4:
    inner = fdl.Config(fam.g2, x=n0, y=fdl.Config(fam.g3, x=n0))
    root = fdl.Config(fam.g1, x=inner, y=[inner, fdl.Config(fam.A, x=leaf, y={1: leaf, 'k': (leaf,)})])
  elif shape == 6:
    # positional-only, positional-or-keyword before *args, *args values (int-keyed arguments)
    inner = fdl.Config(fam.fp, n0, 2, 3, leaf, [n0]) if w % 2 else fdl.Config(fam.fp, None, leaf)
    part = fdl.Partial(fam.fp, 1, 2, 3, n0) if w % 3 else fdl.Partial(fam.fp, leaf)
    va = fdl.Config(fva, 1, leaf, n0)
    if w >= 3:
      del va.a                           # the parameter in front of *args left at its default
    root = fdl.Config(fam.g1, x=inner, y=part, z=[va])
  else:
    root = fdl.Config(fam.A, x=fdl.Config(fam.B, x=fdl.Config(fam.C, x=leaf, y=n0), y=n0), y=fam.g0, z=fdl.Partial(fam.B))
  if tag:
    # a tagged plain argument on the root as well (for shape 2 the root is a Partial mixing ArgFactory and plain arguments)
    fdl.add_tag(root, 'y', T1)
    if two_tags and shape in (2, 4):
      fdl.add_tag(root, 'x', T0)
  return root, n0


def c12_roundtrip(gen: int, shape: int, li: int, w: int, cx: int, hist: bool, tag: bool, two: bool, sub: int) -> bool:
  """
  gen 0: new_codegen, 1: auto_config_codegen; cx: max_expression_complexity (-1 = None); sub: 0 no sub-fixture, 1 the
  designated inner node as a sub-fixture, 2 the middle node (shapes 4 / 5).  The generator raises, or the emitted text
  compiles, runs and yields a configuration canonically equal to the input.
  require: 0 <= gen <= 1 and 0 <= shape <= 6 and 0 <= li < 40 and 0 <= w <= 5 and -1 <= cx <= 3 and 0 <= sub <= 4
  """
  import crosshair
  gen, shape, li, w, cx, sub = _conc(gen, 0, 1), _conc(shape, 0, 6), _conc(li, 0, NLEAF - 1), _conc(w, 0, 5), _conc(cx, -1, 3), _conc(sub, 0, 4)
  hist, tag, two = bool(hist), bool(tag), bool(two)
  with crosshair.NoTracing():
    root, n0 = _member(shape, li, w, tag, two)
    before = canon(root)
    kwargs = dict(max_expression_complexity=None if cx < 0 else cx, include_history=hist)
    if sub == 1:
      kwargs['sub_fixtures'] = {'inner_fixture': n0}
    elif sub == 2:
      mids = [v for v in root.__arguments__.values() if isinstance(v, fdl.Buildable)]
      if not mids:
        return True
      kwargs['sub_fixtures'] = {'middle_fixture': mids[0]}
    elif sub == 3:
      # nested sub-fixtures: the middle node and, inside it, its first Buildable child
      mids = [v for v in root.__arguments__.values() if isinstance(v, fdl.Buildable)]
      kids = [v for v in mids[0].__arguments__.values() if isinstance(v, fdl.Buildable)] if mids else []
      if not kids:
        return True
      kwargs['sub_fixtures'] = {'middle_fixture': mids[0], 'nested_fixture': kids[0]}
    elif sub == 4:
      # ... and the nested sub-fixture is referenced by the top-level configuration as well
      mids = [v for v in root.__arguments__.values() if isinstance(v, fdl.Buildable)]
      kids = [v for v in mids[0].__arguments__.values() if isinstance(v, fdl.Buildable)] if mids else []
      if not kids or 'z' in root.__arguments__ or 'z' not in root.__signature_info__.parameters:
        return True
      root.z = [kids[0]]
      before = canon(root)
      kwargs['sub_fixtures'] = {'middle_fixture': mids[0], 'nested_fixture': kids[0]}
    fn = new_codegen.new_codegen if gen == 0 else ac_codegen.auto_config_codegen
    try:
      code = fn(root, **kwargs)
    except Exception:  # pylint: disable=broad-except
      note('c12', gen, shape, li, w, cx, hist, tag, two, sub, 'rejected')
      return canon(root) == before                 # rejected loudly; the input is untouched
    note('c12', gen, shape, li, w, cx, hist, tag, two, sub, 'emitted')
    sigs.reset_log()
    try:
      back = _run_module(code, gen == 1)
    except Exception:  # pylint: disable=broad-except
      return False                                 # emitted text does not compile / run
    return canon(back) == before and canon(root) == before


def _same_value(a, b):
  if type(a) is not type(b):
    return False
  if isinstance(a, float):
    return (math.isnan(a) and math.isnan(b)) or (a == b and math.copysign(1, a) == math.copysign(1, b))
  if isinstance(a, complex):
    return _same_value(a.real, b.real) and _same_value(a.imag, b.imag)
  if isinstance(a, (list, tuple)):
    return len(a) == len(b) and all(_same_value(x, y) for x, y in zip(a, b))
  if isinstance(a, dict):
    return len(a) == len(b) and all(any(_same_value(k, k2) and _same_value(v, b[k2]) for k2 in b) for k, v in a.items())
  if isinstance(a, (set, frozenset)):
    return len(a) == len(b) and all(any(_same_value(x, y) for y in b) for x in a)
  return a == b


def c12_value_expr(li: int, nest: int) -> bool:
  """
  The expression emitted for a supported value evaluates to an equal value of the same type, or the converter raises.
  nest: 0 bare, 1 [v], 2 (v, 1), 3 {'k': v}, 4 {v: 1}, 5 {v}, 6 [[v], (v,)], 7 NT(v, [v])
  require: 0 <= li < 40 and 0 <= nest <= 7
  """
  import crosshair
  import libcst as cst
  from fiddle._src.codegen import import_manager as im
  from fiddle._src.codegen import namespace as ns
  li, nest = _conc(li, 0, NLEAF - 1), _conc(nest, 0, 7)
  with crosshair.NoTracing():
    v = LEAVES[li]
    try:
      value = [v, [v], (v, 1), {'k': v}, None, None, [[v], (v,)], fam.NT(v, [v])][nest]
      if nest == 4:
        value = {v: 1}
      elif nest == 5:
        value = {v}
    except TypeError:
      return True                     # unhashable as key / element
    note('c12v', li, nest)
    imports = im.ImportManager(ns.Namespace())
    try:
      node = py_val_to_cst_converter.convert_py_val_to_cst(value)
      text = cst.Module(body=[]).code_for_node(node)
    except Exception:  # pylint: disable=broad-except
      return True                     # rejected loudly
    del imports
    env = {'harness': sys.modules['harness'], 'fvlib': sys.modules['fvlib'], 'builtins': __import__('builtins'),
           'fdl': fdl, 'fiddle': __import__('fiddle')}
    import harness.c12 as me           # pylint: disable=import-outside-toplevel
    env['harness'] = __import__('harness')
    env['harness'].c12 = me
    try:
      got = eval(text, env)            # pylint: disable=eval-used
    except Exception:  # pylint: disable=broad-except
      return False                    # emitted, but the expression does not evaluate
    return _same_value(got, value)


def obligations(tier, seed):
  cubes = []
  for gen in range(2):
    for shape in range(7):
      for cx in range(-1, 4):
        if tier == 'quick':
          j = gen + shape + cx
          fix = dict(gen=gen, shape=shape, cx=cx, hist=bool(j % 2), w=j % 6, two=bool(j % 3 == 0))
          cubes.append(Cube(f'g{gen}_s{shape}_c{cx}', [], fix, est=NLEAF * 2))
        else:
          for w in range(6):
            for sub in range(5):
              cubes.append(Cube(f'g{gen}_s{shape}_c{cx}_w{w}_u{sub}', [], dict(gen=gen, shape=shape, cx=cx, w=w, sub=sub),
                                est=NLEAF * 8))
  vcubes = [Cube(f'n{n}', [], dict(nest=n), est=NLEAF) for n in range(8)]
  t = 400 if tier == 'quick' else 1500
  smoke = dict(gen=0, shape=1, li=0, w=1, cx=-1, hist=False, tag=False, two=False, sub=0)
  return [
      Obligation('c12_roundtrip', c12_roundtrip, cubes, timeout=t, path_timeout=120, enumerated=True, smoke=smoke,
                 extra_smokes=[dict(smoke, gen=k % 2, shape=k % 7, li=k, w=k % 6, cx=k % 5 - 1, hist=bool(k % 2), sub=k % 4)
                               for k in range(0, NLEAF, 3)]),
      Obligation('c12_value_expr', c12_value_expr, vcubes, timeout=t, path_timeout=120, enumerated=True,
                 smoke=dict(li=3, nest=1)),
  ]
