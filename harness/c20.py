"""C20 - meaning-preserving transformations preserve what is built."""
from __future__ import annotations

import copy
import dataclasses
import functools
import inspect
from typing import Any, List

import fiddle as fdl
from fiddle._src import materialize
from fiddle._src import tagging
from fiddle._src.experimental import auto_config as ac
from fiddle._src.experimental import dataclasses as fdl_dc
from fiddle._src.experimental import serialization
from fiddle._src.experimental import transform
from fiddle._src.experimental import visualize

from fvlib import fam, sigs
from fvlib import stubs
from fvlib.canon import canon, buildables
from fvlib.notes import note
from fvrun.spec import Cube, Obligation

PROPERTY = 'C20'
stubs.stub_build_message_formatting()
stubs.stub_buildable_repr()
EXPLANATION = (
    'bounded symbolic execution of the real materialize_defaults, visualize.with_defaults_trimmed (both flags), '
    'transform.unintern_tuples_of_literals, transform.replace_unconfigured_partials_with_callables, '
    'serialization.clear_argument_history, tagging.materialize_tags (three argument forms), auto_config.inline and '
    'experimental.dataclasses.convert_dataclasses_to_configs followed by fdl.build (CrossHair + z3) over a family '
    'with positional-only parameters with defaults, mutable defaults shared between parameters, a dataclass with a '
    'default factory, Partials (configured and not) inside containers, interned tuples of literals, tagged values '
    '(with / without value, directly and inside containers) and shared nodes; which variant each site takes is '
    'solver-enumerated, the transformation is the cube parameter, leaves are unbounded symbolic ints')
ASSUMPTIONS = ['stubs: building._format_arg, Buildable.__repr__ constant',
               'a built functools.partial without bound arguments is considered structurally identical to its callable '
               '(what replace_unconfigured_partials_with_callables is documented to produce)']
OUT_OF_BOUNDS = ['configurations outside the family', 'callables whose signature defaults are themselves Buildables (materialize_defaults turns a default that was passed raw into one that is built)', 'auto_config functions outside the four listed programs']

DEF_LIST = [1, 2]


def fmd(x=DEF_LIST, y=DEF_LIST, z=(1, 2)):
  return sigs.Rec('fmd', (x, y, z), (), (), {})


def fpo(a, b=10, c=20, /, d=30):
  """A positional-only parameter without a default in front of positional-only parameters with (different) defaults."""
  return sigs.Rec('fpo', (a, b, c, d), (), (), {})


def fsh(x=[7], y=None):  # pylint: disable=dangerous-default-value
  return sigs.Rec('fsh', (x, y), (), (), {})


@dataclasses.dataclass
class D:
  a: int = 1
  b: List[Any] = dataclasses.field(default_factory=list)
  c: Any = None

  def __eq__(self, other):
    return type(other) is D and (self.a, self.b, self.c) == (other.a, other.b, other.c)

  __hash__ = None


@dataclasses.dataclass
class E:
  d: Any
  items: Any = ()


class T0(fdl.Tag):
  """t0"""


class T1(T0):
  """t1"""


def _conc(v, lo, hi):
  for c in range(lo, hi + 1):
    if v == c:
      return c
  return lo


def _norm(x, memo):
  """Built graph with argument-less functools.partial objects replaced by their callable (aliasing preserved)."""
  if id(x) in memo:
    return memo[id(x)][1]
  if isinstance(x, sigs.Rec):
    out = ['rec', x.name]
    memo[id(x)] = (x, out)
    out.extend([[_norm(v, memo) for v in x.pos], [_norm(v, memo) for v in x.var], [_norm(v, memo) for v in x.ko],
                [(k, _norm(v, memo)) for k, v in x.kw]])
    return out
  if isinstance(x, functools.partial):
    # Under CrossHair every functools.partial wraps a tracing shim (`__wrapped__`), so that partial(partial(f, 1)) is
    # not flattened by CPython as it is in a plain interpreter: flatten here, by hand, on both sides.
    func, pargs, pkw = x.func, tuple(x.args), dict(x.keywords)
    for _ in range(8):
      if isinstance(func, functools.partial):
        pargs, pkw, func = tuple(func.args) + pargs, {**func.keywords, **pkw}, func.func
      elif hasattr(func, '__wrapped__'):
        func = func.__wrapped__
      else:
        break
    if not pargs and not pkw:
      return func
    out = ['partial', func]
    memo[id(x)] = (x, out)
    # bound arguments by parameter name: partial(f, 1) and partial(f, v=1) bind the same thing
    sig = inspect.signature(func)
    bound = sig.bind_partial(*pargs, **pkw).arguments
    # ... and binding a parameter to its own (immutable) default binds nothing
    def is_default(k, v):
      d = sig.parameters[k].default
      if v is None or d is None:
        return v is None and d is None
      # by value, never by identity: `is` on a symbolic int is always False (and small-int caching is an accident)
      return isinstance(v, (int, str, tuple)) and isinstance(d, (int, str, tuple)) and type(d) == type(v) and d == v
    bound = {k: v for k, v in bound.items() if not is_default(k, v)}
    if not bound:
      del memo[id(x)]
      return func
    out.append([(k, _norm(v, memo)) for k, v in sorted(bound.items())])
    return out
  if isinstance(x, list):
    out = []
    memo[id(x)] = (x, out)
    out.extend(_norm(v, memo) for v in x)
    return out
  if isinstance(x, dict):
    out = {}
    memo[id(x)] = (x, out)
    for k, v in x.items():
      out[k] = _norm(v, memo)
    return out
  if isinstance(x, tuple) and not hasattr(x, '_fields'):
    return tuple(_norm(v, memo) for v in x)
  if isinstance(x, (D, E)):
    out = ['dc', type(x).__name__]
    memo[id(x)] = (x, out)
    out.extend(_norm(getattr(x, f.name), memo) for f in dataclasses.fields(x))
    return out
  return x


def _built(cfg):
  sigs.reset_log()
  try:
    b = fdl.build(cfg)
  except Exception as e:  # pylint: disable=broad-except
    return ('raises',)
  return ('ok', canon(_norm(b, {})))


def _member(sa, sb, sc, sv, sk, d1, m0, tg, lv):
  """One configuration; each selector picks the variant of one site."""
  n0 = fdl.Config(fmd)
  if m0 == 1:
    n0.x = DEF_LIST                         # the shared mutable default object, set explicitly
  elif m0 == 2:
    n0.x = lv
    n0.z = (1, 2)                           # an equal tuple of literals, explicitly
  elif m0 == 3:
    n0.x = [1, 2]                           # equal to, but not the same object as, the shared mutable default
  elif m0 == 4:
    shared_l = [7]
    n0 = fdl.Config(fsh, x=shared_l, y=shared_l)       # equal to x's default, and aliased by a sibling argument
  elif m0 == 5:
    shared_l = [7]
    n0 = fdl.Config(fsh, x=shared_l, y=fdl.Config(fam.g4, x={'l': shared_l}))   # ... aliased inside a nested child
  n1 = fdl.Config(D)
  if d1 == 1:
    n1.a = 1                                # equal to the field default
  elif d1 == 2:
    n1.a = lv
    n1.b = [n0]
  if tg == 1:
    n1.c = T1.new(lv + 1)                   # tagged value with a value (folded into the argument's tags)
  root = fdl.Config(fam.fp)
  if sa == 1:
    root[0] = n1
  elif sa == 2:
    root[0] = lv + 2
  if sb == 1:
    root[1] = 2                             # positional-only parameter explicitly set to its default
  elif sb == 2:
    root[1] = lv + 3
  if sc == 1:
    root.c = 3
  elif sc == 2:
    root.c = n0
  if sv == 1:
    if sa == 0:
      root[0] = None
    if sb == 0:
      root[1] = 2
    if sc == 0:
      root.c = 3
    root[fdl.VARARGS:] = [lv + 4, n0]
  lit = (1, 'a', (2, 3))
  if sk == 1:
    root.k = [fdl.Partial(fam.g0), n1]                               # unconfigured Partial in a list
  elif sk == 2:
    root.k = {'p': fdl.Partial(fam.g0, x=lv), 'q': fdl.Partial(fam.g1), 'r': fdl.Partial(fam.g2, x=None)}
  elif sk == 3:
    root.k = [lit, (lit, n0), lit]                                   # one tuple of literals at three places
  elif sk == 4:
    root.k = [T0.new(lv + 5), {'t': T1.new(lv + 6)}, n0]             # tagged values inside containers
  elif sk == 5:
    root.k = [T0.new(), n0]                                          # ... one of them never given a value
  elif sk == 7:
    # tagged values (inside containers) whose value is a node / container that is also referenced elsewhere
    shared = [lv, n1]
    root.k = [T0.new(n0), n0, {'t': T1.new(shared)}, shared]
  elif sk == 6:
    shared = [n0, lv]
    root.k = (shared, {'s': shared}, fdl.Partial(fam.g3, x=shared))
  elif sk == 10:
    # one list reachable through several containers that hold no Buildable
    shared_l = [lv, 1]
    root.k = [{'d': shared_l}, {'d': shared_l}, [shared_l], (shared_l, 2)]
  elif sk == 9:
    # required positional-only parameter followed by defaulted positional-only ones: set, partly set, left open
    root.k = [fdl.Config(fpo, lv), fdl.Config(fpo, lv, 11), {'p': fdl.Partial(fpo)}, fdl.Partial(fpo, lv, 10, 20, d=lv)]
  elif sk == 8:
    # Partials configured through positional arguments only (positional-only parameter, *args), next to ones that set
    # a positional parameter to its default
    root.k = [fdl.Partial(fam.fp, lv), {'v': fdl.Partial(fam.fp, None, 2, 3, lv + 1)}, fdl.Partial(fam.fp, None, 2),
              fdl.Partial(fam.fp, None, lv + 2)]
  if tg == 2:
    fdl.add_tag(root, 1, T1)                                         # tags on unset / positional arguments
    fdl.add_tag(root, 'k', T0)
  return root


TR = ['materialize_defaults', 'with_defaults_trimmed', 'with_defaults_trimmed(deep)', 'unintern_tuples_of_literals',
      'replace_unconfigured_partials_with_callables', 'clear_argument_history', 'materialize_tags',
      'materialize_tags(tags={T0})', 'materialize_tags(clear_field_tags)', 'materialize_defaults x2']


def _apply(t, x):
  if t in (0, 9):
    y = copy.deepcopy(x)
    materialize.materialize_defaults(y)
    if t == 9:
      once = canon(y)
      materialize.materialize_defaults(y)
      if canon(y) != once:
        return None
    return y
  if t == 1:
    return visualize.with_defaults_trimmed(x)
  if t == 2:
    return visualize.with_defaults_trimmed(x, remove_deep_defaults=True)
  if t == 3:
    return transform.unintern_tuples_of_literals(x)
  if t == 4:
    return transform.replace_unconfigured_partials_with_callables(x)
  if t == 5:
    return serialization.clear_argument_history(x)
  if t == 6:
    return tagging.materialize_tags(x)
  if t == 7:
    return tagging.materialize_tags(x, tags={T0})
  return tagging.materialize_tags(x, clear_field_tags=True)


def _serializable(cfg):
  try:
    serialization.Serialization(cfg).result  # pylint: disable=expression-not-assigned
    return True
  except Exception:  # pylint: disable=broad-except
    return False


def _all_defaults_set(cfg):
  for b in buildables(cfg):
    params = list(b.__signature_info__.parameters.values())
    gap = False
    for i, p in enumerate(params):
      if p.default is p.empty and p.kind == p.POSITIONAL_ONLY and i not in b.__arguments__:
        gap = True                       # an unset required positional-only parameter ...
      if p.default is p.empty or p.kind in (p.VAR_POSITIONAL, p.VAR_KEYWORD):
        continue
      if gap and p.kind == p.POSITIONAL_ONLY:
        # ... positional-only defaults behind it cannot be passed at all (setting them makes a Partial that leaves the
        # required one open unbuildable - the build clause of the property takes precedence; fixed: b95f257)
        if i in b.__arguments__:
          return False
        continue
      fn = fdl.get_callable(b)
      if dataclasses.is_dataclass(fn) and any(
          f.name == p.name and f.default_factory is not dataclasses.MISSING for f in dataclasses.fields(fn)):
        continue                         # a default *factory* is not a default value (reading cfg.<field> raises)
      if p.name not in b.__arguments__ and i not in b.__arguments__:
        return False
  return True


def c20_transform(t: int, sa: int, sb: int, sc: int, sv: int, sk: int, d1: int, m0: int, tg: int, lv: int) -> bool:
  """
  require: 0 <= t <= 9 and 0 <= sa <= 2 and 0 <= sb <= 2 and 0 <= sc <= 2 and 0 <= sv <= 1 and 0 <= sk <= 10
  require: 0 <= d1 <= 2 and 0 <= m0 <= 5 and 0 <= tg <= 2
  """
  sa, sb, sc, sv, sk = _conc(sa, 0, 2), _conc(sb, 0, 2), _conc(sc, 0, 2), _conc(sv, 0, 1), _conc(sk, 0, 10)
  d1, m0, tg = _conc(d1, 0, 2), _conc(m0, 0, 5), _conc(tg, 0, 2)
  x = _member(sa, sb, sc, sv, sk, d1, m0, tg, lv)
  before = canon(x)
  want = _built(x)
  ser = _serializable(x)
  y = _apply(t, x)
  note('c20', t, sa, sb, sc, sv, sk, d1, m0, tg, want[0])
  if y is None:
    return False
  if canon(x) != before:
    return False                       # none of them may modify its input (the in-place one ran on a copy)
  if _built(y) != want:
    return False
  # (materialize_defaults works in place, so "== the original" can only be judged against a copy, and a copy of an
  # argument that *is* another parameter's default object no longer aliases that default: no subject when m0 == 1)
  if t in (1, 2) or (t in (0, 9) and m0 != 1):
    try:
      if not (y == x) or not (x == y):
        return False
    except Exception:  # pylint: disable=broad-except
      return False
  if t in (0, 9) and not _all_defaults_set(y):
    return False
  if ser and not _serializable(y):
    return False
  return True


# ------------------------------------------------------------------ auto_config.inline

def _leaf(v):
  return sigs.Rec('leaf', (v,), (), (), {})


def _pair(a, b=None, *, c=None):
  return sigs.Rec('pair', (a, b), (), (c,), {})


@ac.auto_config
def prog0(p, q=5):
  return _pair(_leaf(p), q)


@ac.auto_config
def prog1(p, q=5):
  shared = _leaf(p)
  return _pair(shared, [shared, q], c={'k': shared})


@ac.auto_config
def prog2(p, q=5):
  return _pair(prog0(p, q), functools.partial(_leaf, q))


@ac.auto_config
def prog3(p, q=5):
  inner = _pair(p)
  return _pair(inner, _pair(inner, q), c=(inner,))


PROGS = [prog0, prog1, prog2, prog3]


def c20_inline(prog: int, how: int, nested: int, p: int, q: int) -> bool:
  """
  auto_config.inline(cfg) keeps what cfg builds (also when cfg is a shared node of a larger configuration).
  how 3: the arguments of the inlined call are a list and a Config that the enclosing configuration also reaches by
  other paths (aliasing between the inlined part and its surroundings).
  require: 0 <= prog <= 3 and 0 <= how <= 3 and 0 <= nested <= 2
  """
  fn = PROGS[_conc(prog, 0, 3)]
  extra = None
  if how == 3:
    shared_list, shared_cfg = [p], fdl.Config(_leaf, q)
    cfg = fdl.Config(fn, shared_list, q=shared_cfg)
    extra = [shared_list, {'c': shared_cfg}]
  elif how == 0:
    cfg = fdl.Config(fn, p)
  elif how == 1:
    cfg = fdl.Config(fn, p=p, q=q)
  else:
    cfg = fdl.Config(fn, p)
    cfg.q = q
  if nested == 0:
    root = cfg
  elif nested == 1:
    root = fdl.Config(fam.g1, x=[cfg, cfg], y=cfg, z=extra)
  else:
    root = fdl.Config(fam.g1, x={'a': cfg}, y=fdl.Config(fam.g0, x=cfg, y=extra))
  want = _built(root)
  ac.inline(cfg)
  note('c20i', prog, how, nested)
  if fdl.get_callable(cfg) is fn:
    return False                       # inlined: the auto_config function itself is gone
  return _built(root) == want and want[0] == 'ok'


# ------------------------------------------------------------------ convert_dataclasses_to_configs

def c20_dataclasses(shape: int, share: bool, a: int, v: int) -> bool:
  """
  convert_dataclasses_to_configs(x) builds a value equal to x.
  require: 0 <= shape <= 4
  """
  d = D(a, [v], None)
  if shape == 0:
    x = d
  elif shape == 1:
    x = [d, D(), {'k': D(c=(v, 1))}]
  elif shape == 2:
    x = E(d, (D(a=v), d if share else D(a, [v], None)))
  elif shape == 3:
    x = {'e': E(E(d)), 't': (1, 'a')}
  else:
    x = E(d=[d, d] if share else [d, D(a, [v], None)], items={'k': d})
  cfg = fdl_dc.convert_dataclasses_to_configs(x)
  note('c20d', shape, share)
  sigs.reset_log()
  y = fdl.build(cfg)
  return canon(_norm(y, {})) == canon(_norm(x, {})) and y == x


def obligations(tier, seed):
  cubes = []
  for t in range(10):
    for sk in range(11):
      if tier == 'quick':
        j = t + sk
        fix = dict(t=t, sk=sk, sv=j % 2, d1=j % 3, tg=(j // 2) % 3, sb=(j // 3) % 3)
        cubes.append(Cube(f't{t}_k{sk}', [], fix, est=81))
      else:
        for sv in range(2):
          for tg in range(3):
            cubes.append(Cube(f't{t}_k{sk}_v{sv}_g{tg}', [], dict(t=t, sk=sk, sv=sv, tg=tg), est=243))
  t_ = 300 if tier == 'quick' else 900
  smoke = dict(t=0, sa=1, sb=0, sc=2, sv=1, sk=1, d1=2, m0=2, tg=1, lv=3)
  return [
      Obligation('c20_transform', c20_transform, cubes, timeout=t_, path_timeout=40, smoke=smoke,
                 extra_smokes=[dict(smoke, t=t, sk=(t % 10), tg=t % 3, m0=(t % 2) * 2) for t in range(10)] + [dict(smoke, t=4, sk=8), dict(smoke, t=0, sk=9), dict(smoke, t=5, sk=10)]),
      Obligation('c20_inline', c20_inline, [Cube(f'p{p}_h{h}_n{n}', [], dict(prog=p, how=h, nested=n)) for p in range(4)
                                            for h in range(4) for n in range(3)], timeout=120, path_timeout=40,
                 smoke=dict(prog=1, how=1, nested=1, p=3, q=4), extra_smokes=[dict(prog=0, how=3, nested=2, p=3, q=4)]),
      Obligation('c20_dataclasses', c20_dataclasses, [Cube(f's{s}_{int(sh)}', [], dict(shape=s, share=sh)) for s in range(5)
                                                      for sh in (False, True)], timeout=120, path_timeout=40,
                 smoke=dict(shape=2, share=True, a=3, v=4)),
  ]
