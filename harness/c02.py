"""C02 - one invocation per Buildable instance; built graph mirrors config graph."""
from __future__ import annotations

import copy
import functools

import fiddle as fdl
from fiddle import daglish

from fvlib import fam, sigs
from fvlib import stubs
from fvlib.canon import canon, mutable_ids
from fvlib.notes import note
from fvrun.spec import Cube, Obligation

PROPERTY = 'C02'
stubs.stub_build_message_formatting()
EXPLANATION = (
    'bounded symbolic execution of the real fdl.build / daglish.MemoizedTraversal / Config.__build__ / '
    'Partial.__build__ (CrossHair + z3) over the DAG family: which earlier node or leaf every child slot '
    'points to is solver-enumerated, wrapper kinds / Config-vs-Partial / container sharing / equal twins are '
    'cube parameters, leaves are unbounded symbolic ints; the invocation log and the canonical form (with '
    'aliasing) of the built graph are compared with an independent mirror construction')
ASSUMPTIONS = [
    'stub: building._format_arg returns a constant',
    'garbage collection / id() reuse is not symbolic; only the deterministic temporaries-allocating node type (Box) exercises memo pinning',
]
OUT_OF_BOUNDS = ['more than 4 Buildable nodes, 2 child slots per node', 'depth near the recursion limit',
                 'GC-driven id reuse']


Box = fam.Box


def _wrap(kind, v):
  if kind == 6:
    return Box([v])
  return fam.wrap(kind, v)


def _graph(n, targets, w, partial, share, twin, lv, make_node, wrapf, lw=False):
  """Builds either the configuration or its mirror (expected built graph) from the same vector."""
  nodes = []
  cache = {}
  for i in range(n):
    vals = []
    for s in range(2):
      t = targets[i][s]
      if 0 <= t < i:
        if share and w:
          if t not in cache:
            cache[t] = wrapf(w, nodes[t])
          vals.append(cache[t])
        else:
          vals.append(wrapf(w, nodes[t]))
      elif lw and w:
        # leaf-only container (holds no Buildable at any depth); with `share` both slots hold one object
        if share:
          if ('leaf', i) not in cache:
            cache[('leaf', i)] = wrapf(w, lv + 10 * i)
          vals.append(cache[('leaf', i)])
        else:
          vals.append(wrapf(w, lv + 10 * i + s))
      else:
        vals.append(lv + 10 * i + s)
    nodes.append(make_node(i, partial[i], vals[0], vals[1]))
  return nodes


def _cfg_node(i, is_partial, x, y):
  return (fdl.Partial if is_partial else fdl.Config)(fam.G[i], x=x, y=y)


def _mirror_node(i, is_partial, x, y):
  if is_partial:
    return functools.partial(fam.G[i], x=x, y=y)
  return sigs.Rec(f'g{i}', (x, y), (), (None,), {})


def _canon_box(x):
  """canon() extended for Box (treated as an instance with a list attribute)."""
  return canon(x)


def c02_build(n: int, w: int, share: bool, twin: bool, lw: bool, bare: bool, p0: bool, p1: bool, p2: bool, lv: int,
              t1x: int, t1y: int, t2x: int, t2y: int, t3x: int, t3y: int) -> bool:
  """
  require: 3 <= n <= 4 and 0 <= w <= 6
  require: -1 <= t1x <= 0 and -1 <= t1y <= 0 and -1 <= t2x <= 1 and -1 <= t2y <= 1
  require: -1 <= t3x <= 2 and -1 <= t3y <= 2
  """
  def conc(t, hi):
    # concrete copy of a (decided) symbolic selector, obtained by comparisons only
    for c in range(-1, hi):
      if t == c:
        return c
    return -1

  t1x, t1y, t2x, t2y = conc(t1x, 1), conc(t1y, 1), conc(t2x, 2), conc(t2y, 2)
  t3x, t3y = conc(t3x, 3), conc(t3y, 3)
  targets = [(-1, -1), (t1x, t1y), (t2x, t2y), (t3x, t3y)][:n]
  partial = [p0, p1, p2, False][:n]
  partial[n - 1] = False
  nodes = _graph(n, targets, w, partial, share, twin, lv, _cfg_node, _wrap, lw)
  root = nodes[-1]
  extra_twin = None
  if twin and 0 <= targets[n - 1][0] < n - 1:
    # an equal-but-distinct copy of the node the root's x slot points to, placed in a third argument
    extra_twin = copy.deepcopy(nodes[targets[n - 1][0]])
    root.z = extra_twin
  elif bare:
    # argument-less Partials: two equal-but-distinct instances, the first referenced twice, and an empty list twice
    bp, bp2, el = fdl.Partial(fam.g5), fdl.Partial(fam.g5), []
    # ... and two distinct constant tuples that are == but differ in element types (created at run time)
    root.z = [bp, bp2, bp, el, [], el, tuple([1, 2.0]), tuple([True, 2])]
  sigs.reset_log()
  built = fdl.build(root)
  log1 = list(sigs.LOG)
  # ---- expected
  sigs.reset_log()
  mirror = _graph(n, targets, w, partial, share, twin, lv, _mirror_node, _wrap, lw)
  exp = mirror[-1]
  reach = fam.reachable(n, targets)
  if extra_twin is not None:
    t = targets[n - 1][0]
    # the twin subgraph is a deep copy: build an independent mirror of it
    sub = _graph(t + 1, targets[:t + 1], w, partial[:t + 1], share, False, lv, _mirror_node, _wrap, lw)
    exp = sigs.Rec(exp.name, exp.pos, (), (sub[-1],), {})
  elif bare:
    mp, mp2, ml = functools.partial(fam.g5), functools.partial(fam.g5), []
    exp = sigs.Rec(exp.name, exp.pos, (), ([mp, mp2, mp, ml, [], ml, (1, 2.0), (True, 2)],), {})
  sigs.reset_log()
  note('c02', n, w, share, twin, lw, bare, tuple(partial), tuple(targets), tuple(nm for nm, _ in log1))
  # 1. invocation log: every reachable Config node exactly once (twins add their own invocations)
  names = [nm for nm, _ in log1]
  expect_names = sorted(f'g{i}' for i in reach if not partial[i])
  if extra_twin is not None:
    sub_reach = fam.reachable(t + 1, targets[:t + 1])
    expect_names = sorted(expect_names + [f'g{i}' for i in sub_reach if not partial[i]])
  if sorted(names) != expect_names:
    return False
  # children before parents (first occurrence of a child precedes last occurrence of its parent)
  for i in reach:
    if partial[i]:
      continue
    for tt in targets[i]:
      if 0 <= tt < i and not partial[tt]:
        if f'g{tt}' not in names or names.index(f'g{tt}') > (len(names) - 1 - names[::-1].index(f'g{i}')):
          return False
  # 2. built graph mirrors the config graph, including aliasing
  if canon(built) != canon(exp):
    return False
  # 2b. one leaf-only tuple object referenced from both slots of the root is one built object (canon compares tuples
  # of constants by value, so this identity is checked directly)
  if lw and share and w == 2 and not any(0 <= t < n - 1 for t in targets[n - 1]):
    if built.pos[0] is not built.pos[1]:
      return False
  # 3. a second build shares no built object with the first
  built2 = fdl.build(root)
  ids1 = mutable_ids(built)
  ids2 = mutable_ids(built2)
  for k in ids1:
    if k in ids2:
      return False
  if canon(built2) != canon(exp):
    return False
  # 3b. a plain dict as the root of the build: what its entries share is still built once (the same invocations as
  # for the root alone, the root's result is one object)
  sigs.reset_log()
  child = next((nodes[t] for t in targets[n - 1] if 0 <= t < n - 1), None)
  bd = fdl.build({'p': root, 'q': [root] + ([child] if child is not None else []), 'r': {'again': root}})
  if bd['p'] is not bd['q'][0] or bd['r']['again'] is not bd['p'] or canon(bd['p']) != canon(exp):
    return False
  if sorted(nm for nm, _ in sigs.LOG) != sorted(names):
    return False
  # 4. nor does a built graph share a mutable object with the configuration it was built from
  idc = mutable_ids(root, include_internal=False)
  for k in ids1:
    if k in idc:
      return False
  return True


def c02_temporaries(n: int, v: int) -> bool:
  """
  Many nodes of a user-registered type whose flatten yields temporary (key, value) tuples: every distinct Config below
  them is still invoked exactly once and lands in its own place (a memo entry must pin the object whose id it uses).
  Under CrossHair temporaries stay alive, so address reuse - the only way this can fail - shows in the concrete smoke
  run of this harness (n = 400), not on symbolic paths.
  require: 2 <= n <= 400
  """
  for c in (2, 3, 40, 400):
    if n == c:
      n = c
      break
  else:
    n = 2
  kids = [fdl.Config(fam.g1, x=v + i) for i in range(n)]
  root = fdl.Config(fam.g0, x=[fam.Table({'a': k, 'b': i}) for i, k in enumerate(kids)])
  sigs.reset_log()
  built = fdl.build(root)
  names = [nm for nm, _ in sigs.LOG]
  note('c02t', n)
  if names.count('g1') != n or names.count('g0') != 1:
    return False
  tables = built.pos[0]
  for i, t in enumerate(tables):
    if not isinstance(t, fam.Table) or t.d['b'] != i or t.d['a'].pos[0] != v + i:
      return False
  return len({id(t.d['a']) for t in tables}) == n


def c02_deep(depth: int, v: int) -> bool:
  """
  A chain of `depth` nested Configs next to an early sibling: whether the build succeeds or gives up (RecursionError on
  very deep chains), no Config is invoked more than once within the one fdl.build call.
  require: 1 <= depth <= 600
  """
  for c in (1, 2, 5, 600):
    if depth == c:
      depth = c
      break
  else:
    depth = 1
  chain = fdl.Config(fam.g2, x=v)
  for _ in range(depth):
    chain = fdl.Config(fam.g2, x=[chain])
  root = fdl.Config(fam.g0, x=fdl.Config(fam.g1, x=v), y={'deep': chain})
  sigs.reset_log()
  note('c02d', depth)
  try:
    fdl.build(root)
    finished = True
  except RecursionError:
    finished = False
  names = [nm for nm, _ in sigs.LOG]
  if names.count('g1') > 1 or names.count('g0') > 1 or names.count('g2') > depth + 1:
    return False
  return not finished or (names.count('g1') == 1 and names.count('g2') == depth + 1 and names.count('g0') == 1)


def obligations(tier, seed):
  cubes = []
  allk = [(a, b, c) for a in (False, True) for b in (False, True) for c in (False, True)]
  if tier == 'quick':
    plan4 = [(w, w != 0, w % 2 == 0) for w in range(7)] + [(0, False, False), (1, False, True), (1, True, True),
                                                          (3, False, False), (6, False, False)]
    kinds4 = [(False, False, False), (True, False, True)]
    t = 240
  else:
    plan4 = [(w, sh, tw) for w in range(7) for sh in (False, True) for tw in (False, True) if w or not sh]
    kinds4 = [(False, False, False), (True, False, True), (False, True, False), (True, True, True)]
    t = 900
  for w, sh, tw in plan4:
    for ks in kinds4:
      for t3x in (-1, 0, 1, 2):
        fix = dict(n=4, w=w, share=sh, twin=tw, lw=bool((w + t3x) % 2), bare=bool(t3x % 2) and not tw, p0=ks[0], p1=ks[1], p2=ks[2], t3x=t3x)
        cubes.append(Cube(f'n4_w{w}_s{int(sh)}_t{int(tw)}_k{"".join(str(int(k)) for k in ks)}_x{t3x}', [], fix,
                          est=144))
  for w in range(7):
    for sh in (False, True):
      for tw in (False, True):
        if w == 0 and sh:
          continue
        for ks in allk:
          if ks[2]:
            continue   # node 2 is the root when n == 3
          for lw in ((False, True) if w else (False,)):
            fix = dict(n=3, w=w, share=sh, twin=tw, lw=lw, bare=not tw and (lw or not w), p0=ks[0], p1=ks[1], p2=False, t3x=-1, t3y=-1)
            cubes.append(Cube(f'n3_w{w}_s{int(sh)}_t{int(tw)}_l{int(lw)}_k{"".join(str(int(k)) for k in ks)}', [], fix, est=36))
  smoke = dict(n=4, w=1, share=True, twin=True, lw=True, bare=False, p0=False, p1=True, p2=False, lv=5, t1x=0, t1y=-1, t2x=1, t2y=0,
               t3x=2, t3y=0)
  return [Obligation('c02_build', c02_build, cubes, timeout=t, path_timeout=30, smoke=smoke,
                     extra_smokes=[dict(smoke, w=6, n=3, t3x=-1, t3y=-1, t2x=0, t2y=0),
                                   dict(smoke, w=0, share=False, t3x=0, t3y=0),
                                   dict(smoke, w=3, twin=False, bare=True, t2x=-1, t2y=-1, t3y=-1),
                                   dict(smoke, w=5, twin=False, bare=True, share=False, t1x=-1, t2y=-1)]),
          Obligation('c02_temporaries', c02_temporaries, [Cube(f'n{n}', [], dict(n=n)) for n in (2, 3, 40)], timeout=120,
                     path_timeout=60, smoke=dict(n=400, v=7), extra_smokes=[dict(n=40, v=0)]),
          Obligation('c02_deep', c02_deep, [Cube(f'd{d}', [], dict(depth=d)) for d in (1, 2, 5)], timeout=120,
                     path_timeout=60, smoke=dict(depth=600, v=7), extra_smokes=[dict(depth=5, v=0)])]
