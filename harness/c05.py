"""C05 - a failing callable surfaces faithfully and leaves no residue."""
from __future__ import annotations

import copy
import re

import fiddle as fdl

from fvlib import fam, sigs
from fvlib.canon import canon, reach_paths
from fvlib.notes import note
from fvrun.spec import Cube, Obligation

PROPERTY = 'C05'
EXPLANATION = (
    'bounded symbolic execution of the real fdl.build / call_buildable / _make_message / try_with_lazy_message / '
    'decorate_exception / make_exception_class / _in_build (CrossHair + z3): the DAG shape (child targets) and the '
    'failing node (the crash point) are solver-enumerated, exception-class shape, formatting fault, wrapper kind and '
    'repeat mode are cube parameters; leaves are concrete because the formatted diagnostic is the subject here')
ASSUMPTIONS = [
    'the path named by the message is read from the text between " at <root>" and " with positional arguments"',
    'CrossHair bypasses functools.lru_cache (make_exception_class is re-run per call); class identity of the proxy is not asserted',
]
OUT_OF_BOUNDS = ['exceptions raised by Fiddle\'s own machinery (binding errors: C01)', 'signals, MemoryError',
                 'more than 3 nodes']

FAIL = {'node': None, 'exc': 0, 'round': 0, 'remembered': None}


class CustomInit(Exception):
  def __init__(self, a, b):
    super().__init__(f'custom {a} {b}')
    self.a, self.b = a, b


class StrOverride(Exception):
  def __str__(self):
    return 'overridden text'


class Slotted(Exception):
  __slots__ = ('code',)

  def __init__(self, code):
    super().__init__(f'slotted {code}')
    self.code = code


class NoSubclass(Exception):
  def __init_subclass__(cls, **kw):
    raise TypeError('NoSubclass cannot be subclassed')


class BaseOnly(BaseException):
  pass


class Multi(KeyError, AttributeError):
  pass


def _twin():
  class Twin(Exception):
    """Every call creates a new class with the same module and qualified name."""
  return Twin


TWINS = [_twin(), _twin()]

EXC_NAMES = ['ValueError', 'KeyError', 'CustomInit', 'StrOverride', 'Slotted', 'NoSubclass', 'BaseOnly', 'empty',
             'Multi', 'twin classes (same qualified name, one per round)',
             'an exception that escaped the previous build, raised again by a different node']


def make_exc(shape):
  if shape == 0:
    return ValueError('bad value')
  if shape == 1:
    return KeyError('missing key')
  if shape == 2:
    return CustomInit(1, 'two')
  if shape == 3:
    return StrOverride('ignored')
  if shape == 4:
    return Slotted(7)
  if shape == 5:
    return NoSubclass('cannot wrap me')
  if shape == 6:
    return BaseOnly('base only')
  if shape == 7:
    return RuntimeError()
  if shape == 9:
    return TWINS[FAIL.get('round', 0) % 2]('twin')
  if shape == 10:
    return FAIL['remembered'] if FAIL.get('remembered') is not None else ValueError('first failure')
  return Multi('multi')


class BadRepr:
  def __repr__(self):
    raise RuntimeError('repr is broken')


class BadStrTagMeta(type(fdl.Tag)):
  def __str__(cls):
    raise RuntimeError('tag str is broken')


class BadStrTag(fdl.Tag, metaclass=BadStrTagMeta):
  """tag whose str() raises"""


class BadReprKey:
  """Hashable dict key whose repr() raises (path elements are printed with repr(key))."""

  def __repr__(self):
    raise RuntimeError('repr of key is broken')


class BadStrCallable:
  """Callable instance (no __qualname__) whose str()/repr() raises while armed."""
  armed = False

  def __init__(self, i):
    self.i = i

  def __call__(self, x=None, y=None, *, z=None, t=None):
    sigs.LOG.append((f'h{self.i}', None))
    if FAIL['node'] == self.i:
      raise make_exc(FAIL['exc'])
    return sigs.Rec(f'h{self.i}', (x, y), (), (z,), {})

  def __repr__(self):
    if BadStrCallable.armed:
      raise RuntimeError('repr of callable is broken')
    return f'<BadStrCallable {self.i}>'


def _mk_h(i):
  def h(x=None, y=None, *, z=None, t=None):
    sigs.LOG.append((f'h{i}', None))
    if FAIL['node'] == i:
      raise make_exc(FAIL['exc'])
    return sigs.Rec(f'h{i}', (x, y), (), (z,), {})
  h.__name__ = h.__qualname__ = f'h{i}'
  h.__module__ = __name__
  return h


H = [_mk_h(i) for i in range(3)]
h0, h1, h2 = H


def _mk_hreq(i):
  def hr(x=None, y=None, *, z=None, r):
    sigs.LOG.append((f'h{i}', None))
    return sigs.Rec(f'h{i}', (x, y), (), (z, r), {})
  hr.__name__ = hr.__qualname__ = f'hr{i}'
  hr.__module__ = __name__
  return hr


HR = [_mk_hreq(i) for i in range(3)]
hr0, hr1, hr2 = HR

_PATH_RE = re.compile(r' at <root>(.*?) with positional arguments', re.S)


def _setup(w, fmt, t1x, t1y, t2x, t2y):
  def conc(t, hi):
    for c in range(-1, hi):
      if t == c:
        return c
    return -1
  t1x, t1y, t2x, t2y = conc(t1x, 1), conc(t1y, 1), conc(t2x, 2), conc(t2y, 2)
  targets = [(-1, -1), (t1x, t1y), (t2x, t2y)]
  root, nodes = fam.make(3, targets, [(0, 0), (w, w), (w, w)], callables=H, share=True)
  return root, nodes, targets


def _run(w, exc, fmt, again, fail, t1x, t1y, t2x, t2y):
  """Returns dict of clause results (None when the failing node is unreachable)."""
  root, nodes, targets = _setup(w, fmt, t1x, t1y, t2x, t2y)
  reach = fam.reachable(3, targets)
  f = 0 if fail == 0 else (1 if fail == 1 else 2)
  if f not in reach:
    return None
  if fmt == 1:
    nodes[f].z = BadRepr()
  elif fmt == 2:
    # The failing node's callable has a required, unset, tagged parameter whose tag cannot be
    # formatted: the call itself fails (TypeError) and the diagnostic's tag listing raises.
    fdl.update_callable(nodes[f], HR[f])
    fdl.add_tag(nodes[f], 'r', BadStrTag)
  elif fmt == 4:
    fdl.update_callable(nodes[f], BadStrCallable(f))
  top = {BadReprKey(): root} if fmt == 3 else root     # fmt 3: the path to every node cannot be printed
  before = canon(root)
  healthy_copy = copy.deepcopy(root)
  res = dict(instance=True, startswith=True, path=True, last=True, unmodified=True, nextbuild=True, raised=True)
  rounds = 2 if again == 1 else 1
  FAIL['remembered'] = None
  for rnd in range(rounds):
    if exc == 10 and rnd == 1:
      # the exception that escaped round one is raised again, by another node: its old context names another path
      others = [i for i in sorted(reach) if i != f]
      if not others or fmt in (2, 4):
        break
      f = others[0]
    FAIL['node'], FAIL['exc'], FAIL['round'] = f, exc, rnd
    sigs.reset_log()
    original = make_exc(exc) if fmt != 2 else TypeError('')
    escaped = None
    BadStrCallable.armed = True
    try:
      fdl.build(top)
    except BaseException as e:  # pylint: disable=broad-except
      if type(e).__module__.startswith('crosshair'):
        raise
      escaped = e
    finally:
      FAIL['node'] = None
      BadStrCallable.armed = False
    if escaped is None:
      res['raised'] = False
      return res
    if exc == 10 and fmt != 2:
      FAIL['remembered'] = escaped
    if not isinstance(escaped, type(original)):
      res['instance'] = False
    text = str(escaped)
    if not text.startswith(str(original)):
      res['startswith'] = False
    named_all = _PATH_RE.findall(text)
    if fmt == 3:
      pass          # no string names this path (repr of a key on it raises): the clause has no subject
    elif not named_all:
      res['path'] = False
    else:
      # the context added by *this* build is the last one (an exception raised again carries older contexts in its
      # original message): it has to lead to the Buildable that failed now
      named = named_all[-1]
      hits = [obj for p, obj in reach_paths(root) if p == named]
      if not hits or hits[0] is not nodes[f]:
        res['path'] = False
    names = [n for n, _ in sigs.LOG]
    if fmt == 2:
      # the callable was never entered; none of its (transitive) parents may have been invoked
      parents = [i for i in range(3) if i > f and f in targets[i]]
      parents += [i for i in range(3) if any(p in targets[i] for p in parents)]
      if f'h{f}' in names or any(f'h{i}' in names for i in parents):
        res['last'] = False
    elif not names or names[-1] != f'h{f}' or names.count(f'h{f}') != 1:
      res['last'] = False
    if canon(root) != before:
      res['unmodified'] = False
  # the next build in this thread works normally (failure healed)
  if fmt == 2:
    nodes[f].r = 5
    healthy_copy = copy.deepcopy(root)
  sigs.reset_log()
  try:
    ok = fdl.build(root)
    sigs.reset_log()
    exp = fdl.build(healthy_copy)
    if canon(ok) != canon(exp):
      res['nextbuild'] = False
  except Exception:  # pylint: disable=broad-except
    res['nextbuild'] = False
  note('c05', w, exc, fmt, again, f, tuple(targets), tuple(sorted(k for k, v in res.items() if not v)))
  return res


def c05_residue(w: int, exc: int, fmt: int, again: int, fail: int, t1x: int, t1y: int, t2x: int, t2y: int) -> bool:
  """
  Everything except the "names a path" clause: raised, instance of the original class, message starts
  with the original message, nothing invoked after the failing callable, configuration unmodified,
  next build works.
  require: 0 <= w <= 5 and 0 <= exc <= 10 and 0 <= fmt <= 4 and 0 <= again <= 1 and 0 <= fail <= 2
  require: -1 <= t1x <= 0 and -1 <= t1y <= 0 and -1 <= t2x <= 1 and -1 <= t2y <= 1
  """
  res = _run(w, exc, fmt, again, fail, t1x, t1y, t2x, t2y)
  if res is None:
    return True
  return all(v for k, v in res.items() if k != 'path')


def c05_path(w: int, exc: int, fmt: int, again: int, fail: int, t1x: int, t1y: int, t2x: int, t2y: int) -> bool:
  """
  The escaping exception's message names a path from the root that really leads to the failing Buildable.
  require: 0 <= w <= 5 and 0 <= exc <= 10 and 0 <= fmt <= 4 and 0 <= again <= 1 and 0 <= fail <= 2
  require: -1 <= t1x <= 0 and -1 <= t1y <= 0 and -1 <= t2x <= 1 and -1 <= t2y <= 1
  """
  res = _run(w, exc, fmt, again, fail, t1x, t1y, t2x, t2y)
  if res is None:
    return True
  return res['path']


def _nested_builder(inner):
  def outer_fn(x=None):
    return fdl.build(inner)
  return outer_fn


def c05_nested(depth: int, inner_fails: bool, v: int) -> bool:
  """
  fdl.build from inside a callable that is being built is rejected; afterwards build works again.
  require: 0 <= depth <= 2
  """
  inner = fdl.Config(fam.g0, x=v)
  fn = _nested_builder(inner)
  cfg = fdl.Config(fn, x=1)
  for _ in range(depth):
    cfg = fdl.Config(fam.g1, x=[cfg])
  note('c05n', depth, inner_fails)
  try:
    fdl.build(cfg)
    return False
  except Exception as e:  # pylint: disable=broad-except
    if 'forbidden' not in str(e):
      return False
  # guard released: an ordinary build succeeds, and a second nested attempt is rejected again
  sigs.reset_log()
  r = fdl.build(inner)
  if not (r == sigs.Rec('g0', (v, None), (), (None,), {})):
    return False
  try:
    fdl.build(cfg)
    return False
  except Exception:  # pylint: disable=broad-except
    return True


ATT = [0, 0, 0]
OUTCOMES = []
_INNER = []


def _mk_nb(i):
  def nb(x=None, y=None, *, z=None):
    """Makes ATT[i] nested build attempts, swallowing each rejection, then returns normally."""
    for k in range(ATT[i]):
      try:
        fdl.build(_INNER[0])
        OUTCOMES.append((i, k, 'ACCEPTED'))
      except ValueError as e:
        OUTCOMES.append((i, k, 'rejected' if 'forbidden' in str(e) else 'other ValueError'))
      except Exception as e:  # pylint: disable=broad-except
        OUTCOMES.append((i, k, type(e).__name__))
    return sigs.Rec(f'nb{i}', (x, y), (), (z,), {})
  nb.__name__ = nb.__qualname__ = f'nb{i}'
  nb.__module__ = __name__
  return nb


NB = [_mk_nb(i) for i in range(3)]
nb0, nb1, nb2 = NB


def c05_nested_seq(a0: int, a1: int, a2: int, w: int, t1x: int, t1y: int, t2x: int, t2y: int, v: int) -> bool:
  """
  Every callable of a 3-node DAG makes a0 / a1 / a2 nested fdl.build attempts and swallows the rejections: every
  attempt is rejected (also after earlier rejected attempts by the same or by a sibling callable), nothing is built
  by a nested call, the outer build completes normally, and afterwards the guard is free.
  require: 0 <= a0 <= 2 and 0 <= a1 <= 2 and 0 <= a2 <= 2 and 0 <= w <= 5
  require: -1 <= t1x <= 0 and -1 <= t1y <= 0 and -1 <= t2x <= 1 and -1 <= t2y <= 1
  """
  def conc(t, lo, hi):
    for c in range(lo, hi):
      if t == c:
        return c
    return lo
  t1x, t1y, t2x, t2y = conc(t1x, -1, 1), conc(t1y, -1, 1), conc(t2x, -1, 2), conc(t2y, -1, 2)
  ATT[:] = [conc(a0, 0, 3), conc(a1, 0, 3), conc(a2, 0, 3)]
  del OUTCOMES[:]
  _INNER[:] = [fdl.Config(fam.g5, x=v)]
  targets = [(-1, -1), (t1x, t1y), (t2x, t2y)]
  root, nodes = fam.make(3, targets, [(0, 0), (w, w), (w, w)], callables=NB, share=True)
  before = canon(root)
  sigs.reset_log()
  try:
    built = fdl.build(root)
  except Exception:  # pylint: disable=broad-except
    return False
  names = [n for n, _ in sigs.LOG]
  reach = fam.reachable(3, targets)
  note('c05s', tuple(ATT), w, tuple(targets))
  if 'g5' in names:
    return False                       # a nested build ran a callable
  if sorted(names) != sorted(f'nb{i}' for i in reach):
    return False
  if len(OUTCOMES) != sum(ATT[i] for i in reach):
    return False
  for _, _, what in OUTCOMES:
    if what != 'rejected':
      return False
  if canon(root) != before:
    return False
  ATT[:] = [0, 0, 0]
  sigs.reset_log()
  again = fdl.build(root)
  if canon(again) != canon(built):
    return False
  return fdl.build(_INNER[0]) == sigs.Rec('g5', (v, None), (), (None,), {})



_DD_KEYS = ['mid', 'a', 'zz']
_DD_ORDERS = [(0, 1, 2), (0, 2, 1), (1, 0, 2), (1, 2, 0), (2, 0, 1), (2, 1, 0)]


def c05_mapping_holder(holder: int, order: int, fail: int) -> bool:
  """
  The failing Buildable sits in a mapping container with three keys inserted in one of the six orders (holder 0: dict,
  1: collections.defaultdict, 2: a defaultdict inside a list): the path named by the error leads to it (C05-m7).
  require: 0 <= holder <= 2 and 0 <= order <= 5 and 0 <= fail <= 2
  """
  import collections
  def conc(t, hi):
    for c in range(hi + 1):
      if t == c:
        return c
    return 0
  holder, order, fail = conc(holder, 2), conc(order, 5), conc(fail, 2)
  kids = [fdl.Config(H[i], x=3 + i) for i in range(3)]     # concrete leaves: the message prints them
  items = [(_DD_KEYS[i], kids[i]) for i in _DD_ORDERS[order]]
  m = dict(items) if holder == 0 else collections.defaultdict(list, items)
  root = fdl.Config(fam.g1, x=[m] if holder == 2 else m, y=1)
  FAIL['node'], FAIL['exc'], FAIL['round'] = fail, 0, 0
  sigs.reset_log()
  note('c05m', holder, order, fail)
  try:
    fdl.build(root)
  except ValueError as e:
    text = str(e)
  else:
    return False
  finally:
    FAIL['node'] = None
  named = _PATH_RE.findall(text)
  if not named:
    return False
  expect = ('.x[0]' if holder == 2 else '.x') + f'[{_DD_KEYS[fail]!r}]'
  if named[-1] != expect:
    return False
  hits = [obj for p, obj in reach_paths(root) if p == named[-1]]
  return (not hits or hits[0] is kids[fail]) and text.startswith('bad value')


def obligations(tier, seed):
  ws = [0, 1, 3] if tier == 'quick' else [0, 1, 2, 3, 4, 5]
  cubes = []
  for exc in range(11):
    for fmt in range(5):
      for again in range(2):
        for w in ws:
          if tier == 'quick' and (exc + fmt + again + w) % 2:
            continue
          cubes.append(Cube(f'e{exc}_f{fmt}_a{again}_w{w}', [], dict(exc=exc, fmt=fmt, again=again, w=w), est=108))
  smoke = dict(w=1, exc=0, fmt=0, again=1, fail=0, t1x=0, t1y=-1, t2x=1, t2y=0)
  t = 300 if tier == 'quick' else 900
  return [
      Obligation('c05_residue', c05_residue, cubes, timeout=t, path_timeout=40, smoke=smoke,
                 extra_smokes=[dict(smoke, exc=e, fmt=e % 5, fail=e % 3) for e in range(9)] + [dict(smoke, exc=9), dict(smoke, exc=10, fail=1)]),
      Obligation('c05_path', c05_path, cubes, timeout=t, path_timeout=40, smoke=smoke,
                 extra_smokes=[dict(smoke, exc=e, fail=1) for e in (1, 2, 3, 4, 7, 8, 9, 10)]),
      Obligation('c05_nested_seq', c05_nested_seq,
                 [Cube(f'a{a0}{a2}_w{w}', [], dict(a0=a0, a2=a2, w=w), est=108) for a0 in range(3) for a2 in range(3)
                  for w in ((1,) if tier == 'quick' else (0, 1, 3, 5))], timeout=t, path_timeout=40,
                 smoke=dict(a0=2, a1=1, a2=2, w=1, t1x=0, t1y=-1, t2x=1, t2y=0, v=3)),
      Obligation('c05_mapping_holder', c05_mapping_holder, [Cube(f'h{h}_o{o}', [], dict(holder=h, order=o)) for h in range(3) for o in range(6)],
                 timeout=120, path_timeout=40, smoke=dict(holder=1, order=0, fail=1),
                 extra_smokes=[dict(holder=2, order=4, fail=0), dict(holder=0, order=5, fail=2)]),
      Obligation('c05_nested', c05_nested, [Cube(f'd{d}', [], dict(depth=d)) for d in range(3)], timeout=120,
                 smoke=dict(depth=1, inner_fails=False, v=3)),
  ]
