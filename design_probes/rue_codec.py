"""Pure-Python stub of CPython's raw_unicode_escape codec, pluggable into CrossHair's codec registry."""
import codecs
from typing import List, Optional, Tuple, Union

def py_decode(byts) -> str:
  """Transliteration of _PyUnicode_DecodeRawUnicodeEscapeStateful (final=True)."""
  out: List[str] = []
  i, n = 0, len(byts)
  while i < n:
    c = byts[i]; i += 1
    if c != 92 or i >= n:
      out.append(chr(c)); continue
    c = byts[i]; i += 1
    if c == 117: count = 4
    elif c == 85: count = 8
    else:
      out.append('\\'); out.append(chr(c)); continue
    ch = 0
    for _ in range(count):
      if i >= n: raise UnicodeDecodeError('rawunicodeescape', b'', 0, 1, 'truncated escape')
      d = byts[i]
      if 48 <= d <= 57: v = d - 48
      elif 97 <= d <= 102: v = d - 87
      elif 65 <= d <= 70: v = d - 55
      else: raise UnicodeDecodeError('rawunicodeescape', b'', 0, 1, 'truncated escape')
      ch = ch * 16 + v; i += 1
    if ch > 0x10FFFF: raise UnicodeDecodeError('rawunicodeescape', b'', 0, 1, 'out of range')
    out.append(chr(ch))
  return ''.join(out)

HEX = '0123456789abcdef'
def py_encode(s) -> List[int]:
  out: List[int] = []
  for chx in s:
    cp = ord(chx)
    if cp < 256: out.append(cp)
    elif cp < 0x10000:
      out += [92, 117] + [ord(HEX[(cp >> sh) & 15]) for sh in (12, 8, 4, 0)]
    else:
      out += [92, 85] + [ord(HEX[(cp >> sh) & 15]) for sh in (28, 24, 20, 16, 12, 8, 4, 0)]
  return out

def install_into_crosshair():
  from crosshair.libimpl.builtinslib import SymbolicBytes
  from crosshair.libimpl.encodings._encutil import StemEncoder, MidChunkError
  class RUE(StemEncoder):
    encoding_name = 'raw_unicode_escape'
    @classmethod
    def _encode_chunk(cls, string, start):
      return (SymbolicBytes(py_encode(string[start:])), len(string), None)
    @classmethod
    def _decode_chunk(cls, byts, start):
      try:
        return (py_decode(byts[start:]), len(byts), None)
      except UnicodeDecodeError as e:
        return ('', start, MidChunkError('truncated escape'))
  entry = RUE.getregentry()
  def search(name):
    if name in ('crosshair_raw_unicode_escape', 'crosshair_raw-unicode-escape'): return entry
    return None
  codecs.register(search)
