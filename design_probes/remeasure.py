import sys, time, importlib
import crosshair.core as core
_orig = core.consider_shortcircuit
N = [0]
def no_sc(fn, sig, bound, subconditions, allow_interpretation):
  if allow_interpretation:
    N[0] += 1
    return None
  return _orig(fn, sig, bound, subconditions, allow_interpretation)
if sys.argv[3] == 'off': core.consider_shortcircuit = no_sc
from crosshair.core_and_libs import analyze_function, run_checkables
from crosshair.options import AnalysisOptionSet
mod = importlib.import_module(sys.argv[1]); fn = getattr(mod, sys.argv[2])
t0 = time.time()
msgs = list(run_checkables(analyze_function(fn, AnalysisOptionSet(per_condition_timeout=float(sys.argv[4]), report_all=True))))
print(sys.argv[1:4], [(m.state.name, m.message[:120]) for m in msgs], round(time.time() - t0, 1), 'sc-considered', N[0])
