import copy
import fiddle as fdl
from fiddle import daglish
from fiddle._src import tagging, selectors, materialize
from fiddle._src.experimental import visualize, transform, serialization as ser
from lib0 import *

def c08_paths_sound(e1: int, e2x: int, e2y: int, w: int, kinds: int, leaf: int, memoized: bool) -> bool:
  """
  pre: -1 <= e1 <= 0 and -1 <= e2x <= 1 and -1 <= e2y <= 1 and 0 <= w <= 4 and 0 <= kinds <= 15
  post: _
  """
  root, nodes = fam(e1, e2x, e2y, w, kinds, leaf)
  seen = []
  for value, path in daglish.iterate(root, memoized=memoized):
    got = daglish.follow_path(root, path)
    if isinstance(value, (list, dict, tuple, fdl.Buildable)):
      if got is not value: return False
    elif got != value: return False
    seen.append(path)
  if len(set(seen)) != len(seen): return False
  rebuilt = daglish.MemoizedTraversal.run(lambda v, s: s.map_children(v), root)
  return canon(rebuilt) == canon(root)

def c15_select(e1: int, e2x: int, e2y: int, w: int, kinds: int, sub: bool, tgt: int) -> bool:
  """
  pre: -1 <= e1 <= 0 and -1 <= e2x <= 1 and -1 <= e2y <= 1 and 0 <= w <= 3 and 0 <= kinds <= 15 and 0 <= tgt <= 2
  post: _
  """
  root, nodes = fam(e1, e2x, e2y, w, kinds, 7)
  target = [A, B, f][tgt]
  reach = {id(v): v for v, _ in daglish.iterate(root) if isinstance(v, fdl.Buildable)}
  def matches(n):
    c = fdl.get_callable(n)
    if c == target: return True
    return sub and isinstance(target, type) and isinstance(c, type) and issubclass(c, target)
  exp = sorted(id(n) for n in reach.values() if matches(n))
  got = sorted(id(n) for n in selectors.select(root, target, match_subclasses=sub, check_nonempty=False))
  return exp == got

def c20_materialize(e1: int, e2x: int, e2y: int, w: int, kinds: int, leaf: int, t: int) -> bool:
  """
  pre: -1 <= e1 <= 0 and -1 <= e2x <= 1 and -1 <= e2y <= 1 and 0 <= w <= 3 and kinds == 0 and 0 <= t <= 3
  post: _
  """
  root, nodes = fam(e1, e2x, e2y, w, kinds, leaf)
  before = canon(fdl.build(copy.deepcopy(root)))
  if t == 0:
    out = copy.deepcopy(root); materialize.materialize_defaults(out)
  elif t == 1: out = visualize.with_defaults_trimmed(root)
  elif t == 2: out = transform.unintern_tuples_of_literals(root)
  else: out = ser.clear_argument_history(root)
  if t <= 1 and not (out == root): return False
  return canon(fdl.build(out)) == before

def c17_noinput_mutation(e1: int, e2x: int, e2y: int, w: int, kinds: int, api: int) -> bool:
  """
  pre: -1 <= e1 <= 0 and -1 <= e2x <= 1 and -1 <= e2y <= 1 and 0 <= w <= 3 and 0 <= kinds <= 7 and 0 <= api <= 7
  post: _
  """
  root, nodes = fam(e1, e2x, e2y, w, kinds, 'v' * 70)
  before = canon(root)
  try:
    if api == 0: visualize.with_defaults_trimmed(root)
    elif api == 1: visualize.trim_fields_to(root, ['x'])
    elif api == 2: visualize.structure(root)
    elif api == 3: tagging.materialize_tags(root)
    elif api == 4: transform.replace_unconfigured_partials_with_callables(root)
    elif api == 5: ser.clear_argument_history(root)
    elif api == 6: visualize.depth_over(root, 1)
    else: fdl.cast(fdl.Partial, root)
  except Exception:
    pass
  return canon(root) == before
