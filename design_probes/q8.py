import fiddle as fdl
from fiddle._src.experimental import serialization as ser
from q6 import jsonify, g

def b_noeq(b: bool, share: bool) -> bool:
  """
  post: _
  """
  l = [1]
  cfg = fdl.Config(g, x=l, y={'k': b, 'l': l if share else [1]})
  cfg2 = ser.Deserialization(jsonify(ser.Serialization(cfg).result)).result
  return cfg2.y['k'] == b and (cfg2.y['l'] is cfg2.x) == share

def b_eq(b: bool, share: bool) -> bool:
  """
  post: _
  """
  l = [1]
  cfg = fdl.Config(g, x=l, y={'k': b, 'l': l if share else [1]})
  cfg2 = ser.Deserialization(jsonify(ser.Serialization(cfg).result)).result
  return cfg2 == cfg
