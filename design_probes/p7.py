import fiddle as fdl
import p7mod
from fiddle._src.codegen import new_codegen

def ac_equiv(pid: int, p: int, q: int) -> bool:
  """
  pre: 0 <= pid <= 1
  post: _
  """
  prog = [p7mod.prog0, p7mod.prog1][pid]
  direct = prog(p, q)
  built = fdl.build(prog.as_buildable(p, q))
  return direct == built

def cg_equiv(v: int, share: bool) -> bool:
  """
  pre: -3 <= v <= 3
  post: _
  """
  inner = fdl.Config(p7mod.A, v)
  cfg = fdl.Config(p7mod.A, inner, y=[inner if share else fdl.Config(p7mod.A, v)])
  code = new_codegen.new_codegen(cfg)
  ns = {}
  exec(code, ns)
  return ns['config_fixture']() == cfg
