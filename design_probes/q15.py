import fiddle as fdl
import p7mod
from fiddle._src.codegen import new_codegen
from fiddle._src.codegen.auto_config import experimental_top_level_api as etl
from lib0 import canon
import itertools
_CTR = itertools.count()
LEAVES = [0, -1, 1.5, 'a', None, (1, 2)]
def cg_equiv(li: int, share: bool, gen: int, cx: int) -> bool:
  """
  pre: 0 <= li < 6 and 0 <= gen <= 1 and 0 <= cx <= 2
  post: _
  """
  from crosshair import realize
  li, share, gen, cx = realize(li), realize(share), realize(gen), realize(cx)
  from crosshair import NoTracing
  with NoTracing():
    return _body(li, share, gen, cx)

def _body(li, share, gen, cx):
  v = LEAVES[li]
  inner = fdl.Config(p7mod.A, v)
  cfg = fdl.Config(p7mod.A, inner, y=[inner if share else fdl.Config(p7mod.A, v)])
  mec = [None, 0, 2][cx]
  if gen == 0:
    code = new_codegen.new_codegen(cfg, max_expression_complexity=mec)
  else:
    code = etl.auto_config_codegen(cfg, max_expression_complexity=mec)
  ns = {}
  import linecache, itertools
  fname = f'<fvgen-{next(_CTR)}>'
  linecache.cache[fname] = (len(code), None, code.splitlines(True), fname)
  exec(compile(code, fname, 'exec'), ns)
  out = ns['config_fixture']() if gen == 0 else ns['config_fixture'].as_buildable()
  return canon(out) == canon(cfg)
