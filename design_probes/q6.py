import fiddle as fdl
from fiddle._src.experimental import serialization as ser
def g(x=None, y=None): return (x, y)

def jsonify(o):
  if isinstance(o, dict): return {str(k) if not isinstance(k, str) else k: jsonify(v) for k, v in o.items()}
  if isinstance(o, (list, tuple)): return [jsonify(v) for v in o]
  return o

def rt_struct(v: int, s: str, b: bool, share: bool) -> bool:
  """
  post: _
  """
  l = [v, s]
  cfg = fdl.Config(g, x=l, y={'k': b, 'l': l if share else [v, s]})
  d = jsonify(ser.Serialization(cfg).result)
  cfg2 = ser.Deserialization(d).result
  return (cfg2.x[0] == v and cfg2.x[1] == s and cfg2.y['k'] is b and type(cfg2.x[0]) is int
          and (cfg2.y['l'] is cfg2.x) == share and cfg2 == cfg)
