import collections
import rue_codec
from crosshair.core_and_libs import analyze_function, run_checkables
from crosshair.options import AnalysisOptionSet
STAT = collections.Counter()
def dec(bs: bytes) -> bool:
  """
  pre: len(bs) == 6 and bs[0] == 92 and bs[1] == 117
  post: _
  """
  try:
    s = rue_codec.py_decode(bs)
  except UnicodeDecodeError as e:
    STAT['err:' + str(e.reason) + ':' + str(e.start)] += 1
    return True
  STAT['ok len %d' % len(s)] += 1
  return True
for m in run_checkables(analyze_function(dec, AnalysisOptionSet(per_condition_timeout=20, report_all=True))):
  print(m.state, m.message[:300])
print(STAT)
