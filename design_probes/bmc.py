# Spike: BMC of the build guard with a symbolic schedule. Steps of _in_build():
# 0: t = read flag; 1: if t raise(err) -> end ; 2: flag = True ; 3..3+B-1: body ; 3+B: flag = False ; end
import z3, time
def run(shared, T=2, B=2):
  L = 4 + B  # pcs 0..L-1, L = done
  K = T * L
  s = z3.Solver()
  sched = [z3.Int(f's{t}') for t in range(K)]
  def mk(step):
    return dict(pc=[z3.Int(f'pc{i}_{step}') for i in range(T)],
                tmp=[z3.Bool(f'tmp{i}_{step}') for i in range(T)],
                err=[z3.Bool(f'err{i}_{step}') for i in range(T)],
                flag=[z3.Bool(f'flag{i}_{step}') for i in range(1 if shared else T)])
  st = [mk(k) for k in range(K + 1)]
  fl = lambda S, i: S['flag'][0 if shared else i]
  for i in range(T):
    s.add(st[0]['pc'][i] == 0, z3.Not(st[0]['err'][i]), z3.Not(st[0]['tmp'][i]))
  for f in st[0]['flag']: s.add(z3.Not(f))
  for k in range(K):
    A, Bn = st[k], st[k + 1]
    s.add(sched[k] >= 0, sched[k] < T)
    for i in range(T):
      me = sched[k] == i
      pc = A['pc'][i]
      # frame for other threads
      s.add(z3.Implies(z3.Not(me), z3.And(Bn['pc'][i] == pc, Bn['tmp'][i] == A['tmp'][i], Bn['err'][i] == A['err'][i])))
      if not shared:
        s.add(z3.Implies(z3.Not(me), fl(Bn, i) == fl(A, i)))
      newflag = z3.If(pc == 2, True, z3.If(pc == 3 + B, False, fl(A, i)))
      s.add(z3.Implies(me, z3.And(
        Bn['tmp'][i] == z3.If(pc == 0, fl(A, i), A['tmp'][i]),
        Bn['err'][i] == z3.If(z3.And(pc == 1, A['tmp'][i]), True, A['err'][i]),
        Bn['pc'][i] == z3.If(pc >= L, pc, z3.If(z3.And(pc == 1, A['tmp'][i]), L, pc + 1)),
        fl(Bn, i) == newflag)))
  # negated property: some thread saw the error (alone it never does)
  s.add(z3.Or([st[K]['err'][i] for i in range(T)]))
  t = time.time(); r = s.check(); dt = time.time() - t
  out = (str(r), round(dt, 3))
  if str(r) == 'sat':
    m = s.model(); out += ([m[x].as_long() for x in sched],)
  return out
print('thread-local flag :', run(False))
print('shared flag       :', run(True))
print('thread-local T=3  :', run(False, T=3, B=3))
