from fiddle._src.experimental import serialization as ser

def rt_bytes(bs: bytes) -> bool:
  """
  pre: len(bs) <= 6
  post: _
  """
  trav = ser.find_node_traverser(bytes)
  values, md = trav.flatten(bs)
  return trav.unflatten(values, md) == bs
