import sys, codecs, collections
import rue_codec
rue_codec.install_into_crosshair()
from crosshair.core_and_libs import analyze_function, run_checkables, NoTracing
from crosshair.options import AnalysisOptionSet
from crosshair import realize
from fiddle._src.experimental import serialization as ser
STAT = collections.Counter()
def rt_bytes(bs: bytes) -> bool:
  """
  pre: len(bs) <= 6
  post: _
  """
  trav = ser.find_node_traverser(bytes)
  try:
    values, md = trav.flatten(bs)
  except UnicodeDecodeError:
    STAT['decode_err'] += 1
    return True
  STAT['decoded'] += 1
  out = trav.unflatten(values, md)
  STAT['encoded'] += 1
  r = (out == bs)
  if r: STAT['equal'] += 1
  else: STAT['differ'] += 1
  return r
for m in run_checkables(analyze_function(rt_bytes, AnalysisOptionSet(per_condition_timeout=30, report_all=True))):
  print(m.state, m.message[:300])
print(STAT)
