import types, time, random, collections
from crosshair.core_and_libs import analyze_function, run_checkables
from crosshair.options import AnalysisOptionSet
import p1
PATHS = collections.Counter()
def cube(fn, extra_pre):
  doc = fn.__doc__
  lines = doc.split('\n')
  idx = max(i for i, l in enumerate(lines) if l.strip().startswith('pre:'))
  lines.insert(idx + 1, '  pre: ' + extra_pre)
  g = types.FunctionType(fn.__code__, fn.__globals__, fn.__name__, fn.__defaults__, fn.__closure__)
  g.__doc__ = '\n'.join(lines); g.__annotations__ = dict(fn.__annotations__); g.__module__ = fn.__module__
  return g
for n in range(0, 4):
  g = cube(p1.getitem_matches_model, f'n == {n}')
  t = time.time()
  msgs = list(run_checkables(analyze_function(g, AnalysisOptionSet(per_condition_timeout=30, report_all=True))))
  print(n, [(m.state.name, m.message[:60]) for m in msgs], round(time.time() - t, 2))
import crosshair.statespace as ss, inspect
print([n for n in dir(ss) if 'rand' in n.lower() or 'seed' in n.lower()])
src = inspect.getsource(ss)
import re
print(re.findall(r'.*[Rr]andom\(.*', src)[:5])
