import fiddle as fdl

class Obj:
  def __init__(self): pass

def h(a, b=None, *, c=None): return (a, b, c)

def partial_fresh(ov: bool, v: int, w: int) -> bool:
  """
  post: _
  """
  shared = fdl.Config(Obj)
  cfg = fdl.Partial(h, a=fdl.ArgFactory(Obj), b=[fdl.ArgFactory(Obj), v], c=shared)
  p = fdl.build(cfg)
  r1 = p(c=w) if ov else p()
  r2 = p()
  if r1[0] is r2[0]: return False
  if r1[1][0] is r2[1][0]: return False
  if r1[1][1] != v: return False
  if ov:
    if r1[2] != w: return False
  else:
    if r1[2] is not r2[2]: return False
  return isinstance(r2[2], Obj)
