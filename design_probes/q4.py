import fiddle as fdl
from fiddle._src.experimental import serialization as ser
def g(x=None, y=None): return (x, y)

def rt_json_str(s: str) -> bool:
  """
  pre: len(s) <= 1
  post: _
  """
  cfg = fdl.Config(g, x=s)
  cfg2 = ser.load_json(ser.dump_json(cfg))
  return cfg2.x == s and type(cfg2.x) is str

def rt_json_int(v: int, b: bool) -> bool:
  """
  post: _
  """
  cfg = fdl.Config(g, x=[v, v], y=b)
  cfg2 = ser.load_json(ser.dump_json(cfg))
  return cfg2.x == [v, v] and cfg2.y is b
