from typing import Optional, List, Union, Dict
import fiddle as fdl
from fiddle._src.experimental import serialization as ser

def g(x=None, y=None): return (x, y)

def rt_leaf_int(v: int, s: str, b: bool) -> bool:
  """
  post: _
  """
  cfg = fdl.Config(g, x=[v, s], y={'k': b})
  d = ser.Serialization(cfg).result
  cfg2 = ser.Deserialization(d).result
  return cfg2.x[0] == v and cfg2.x[1] == s and cfg2.y['k'] is b and type(cfg2.x[0]) is int

def rt_bytes(bs: bytes) -> bool:
  """
  pre: len(bs) <= 6
  post: _
  """
  cfg = fdl.Config(g, x=bs)
  cfg2 = ser.load_json(ser.dump_json(cfg))
  return cfg2.x == bs

def rt_json_str(s: str) -> bool:
  """
  pre: len(s) <= 3
  post: _
  """
  cfg = fdl.Config(g, x=s)
  cfg2 = ser.load_json(ser.dump_json(cfg))
  return cfg2.x == s
