from typing import Optional, List, Union, Dict
import fiddle as fdl

LOG = []
class Node:
  def __init__(self, tag, x=None, y=None):
    LOG.append(tag)
    self.tag, self.x, self.y = tag, x, y

def wrap(kind: int, v):
  if kind == 0: return v
  if kind == 1: return [v]
  if kind == 2: return (v,)
  return {'k': v}

def unwrap(kind: int, v):
  if kind == 0: return v
  if kind == 1: return v[0]
  if kind == 2: return v[0]
  return v['k']

def one_call_per_instance(e1x: int, e2x: int, e2y: int, e3x: int, e3y: int, w: int, leaf: int) -> bool:
  """
  4 nodes n0..n3 topologically ordered (n3 root); child slots choose an earlier node or a leaf (-1).
  pre: -1 <= e1x <= 0
  pre: -1 <= e2x <= 1 and -1 <= e2y <= 1
  pre: -1 <= e3x <= 2 and -1 <= e3y <= 2
  pre: w == 1
  post: _
  """
  del LOG[:]
  nodes = [fdl.Config(Node, 0)]
  def pick(e):
    return leaf if e < 0 else wrap(w, nodes[e])
  nodes.append(fdl.Config(Node, 1, x=pick(e1x)))
  nodes.append(fdl.Config(Node, 2, x=pick(e2x), y=pick(e2y)))
  nodes.append(fdl.Config(Node, 3, x=pick(e3x), y=pick(e3y)))
  root = nodes[3]
  # reference reachability
  edges = {1: [e1x], 2: [e2x, e2y], 3: [e3x, e3y], 0: []}
  reach = set()
  def dfs(i):
    if i in reach: return
    reach.add(i)
    for c in edges[i]:
      if c >= 0: dfs(c)
  dfs(3)
  built = fdl.build(root)
  if sorted(LOG) != sorted(reach):
    return False
  # post-order: every child before parent
  pos = {t: i for i, t in enumerate(LOG)}
  for p in reach:
    for c in edges[p]:
      if c >= 0 and pos[c] > pos[p]: return False
  # sharing mirror
  objs = {}
  def walk(o):
    if isinstance(o, Node):
      if o.tag in objs:
        if objs[o.tag] is not o: return False
        return True
      objs[o.tag] = o
      for slot, e in zip(('x', 'y'), edges[o.tag] + [-1, -1]):
        v = getattr(o, slot)
        if e >= 0:
          if not walk(unwrap(w, v)): return False
        elif slot == 'x' and o.tag >= 1 and v != leaf: return False
      return True
    return False
  return walk(built)
