"""C01 prototype: generic signature shapes, set-mask, varargs count, extra kw; oracle = direct call formed from what was set."""
import inspect, itertools
import fiddle as fdl

SIGS = []
def _mk(p, k, va, ko, vk, d):
  names_p = [f'p{i}' for i in range(p)]; names_k = [f'k{i}' for i in range(k)]
  pos = names_p + names_k
  nd = min(d, len(pos))
  parts = []
  for i, n in enumerate(pos):
    s = n + (f'={100 + i}' if i >= len(pos) - nd else '')
    parts.append(s)
    if i == p - 1: parts.append('/')
  if va: parts.append('*args')
  elif ko: parts.append('*')
  if ko: parts.append('o0=200')
  if vk: parts.append('**kw')
  src = f"def fn({', '.join(parts)}):\n  return ({', '.join(pos) if pos else ''}{',' if pos else ''} {'args' if va else '()'}, {'o0' if ko else 'None'}, {'tuple(sorted(kw.items()))' if vk else '()'})\n"
  ns = {}; exec(src, ns); f = ns['fn']; f.__qualname__ = f.__name__ = f'fn_{p}{k}{int(va)}{int(ko)}{int(vk)}{nd}'
  SIGS.append((f, p, k, va, ko, vk, nd))
for p, k, va, ko, vk, d in itertools.product((0, 1, 2), (0, 1, 2), (0, 1), (0, 1), (0, 1), (0, 1, 4)):
  if p + k == 0 and not va: continue
  _mk(p, k, va, ko, vk, d)

def build_matches_call(sig: int, m0: bool, m1: bool, m2: bool, m3: bool, mo: bool, nva: int, xkw: bool,
                       v0: int, v1: int, v2: int, v3: int, vo: int, vv: int, vx: int) -> bool:
  """
  pre: 0 <= sig < 16
  pre: 0 <= nva <= 2
  post: _
  """
  f, p, k, va, ko, vk, nd = SIGS[SIGBASE + sig]
  F = p + k
  mask = [m0, m1, m2, m3][:F]; vals = [v0, v1, v2, v3][:F]
  if not va: nva = 0
  if not ko: mo = False
  if not vk: xkw = False
  params = list(inspect.signature(f).parameters.values())
  cfg = fdl.Config(f)
  for i in range(F):
    if mask[i]: cfg[i] = vals[i]
  if nva:
    if not all(mask): return True          # cannot extend *args unless... (harness limitation: only with full prefix)
    cfg[fdl.VARARGS:] = [vv + j for j in range(nva)]
  if mo: cfg.o0 = vo
  if xkw: cfg.zz = vx
  # form the direct call
  kwargs = {}
  if mo: kwargs['o0'] = vo
  if xkw: kwargs['zz'] = vx
  args = []
  impossible = False
  if nva:
    args = [vals[i] for i in range(F)] + [vv + j for j in range(nva)]
  else:
    last_pos_only = max([i for i in range(p) if mask[i]], default=-1)
    for i in range(p):
      if mask[i]: args.append(vals[i])
      elif i < last_pos_only:
        if params[i].default is inspect.Parameter.empty: impossible = True
        else: args.append(params[i].default)
    for i in range(p, F):
      if mask[i]: kwargs[params[i].name] = vals[i]
  try:
    expected = None if impossible else f(*args, **kwargs)
  except TypeError:
    impossible = True
  try:
    built = fdl.build(cfg)
  except TypeError:
    return impossible
  return (not impossible) and built == expected
import os
SIGBASE = int(os.environ.get("SIGBASE", "0"))
