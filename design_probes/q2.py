import fiddle as fdl

LOG = []
class Boom(Exception):
  def __init__(self, a, b):
    super().__init__(f'{a}-{b}')
    self.a, self.b = a, b

def node(tag, fail=False, x=None):
  LOG.append(tag)
  if fail: raise Boom(tag, 'z')
  return (tag, x)

def failing_node(which: int, v: int) -> bool:
  """
  pre: 0 <= which <= 2 and 0 <= v <= 3
  post: _
  """
  del LOG[:]
  n0 = fdl.Config(node, 0, fail=(which == 0), x=v)
  n1 = fdl.Config(node, 1, fail=(which == 1), x=[n0])
  n2 = fdl.Config(node, 2, fail=(which == 2), x={'a': n1, 'b': n0})
  try:
    fdl.build(n2)
    return False
  except Boom as e:
    paths = {0: ["<root>.x['a'].x[0]", "<root>.x['b']"], 1: ["<root>.x['a']"], 2: ["<root> "]}[which]
    s = str(e)
    if not s.startswith(f'{which}-z'): return False
    if not any(p in s for p in paths): return False
    if LOG[-1] != which: return False
  n0.fail = n1.fail = n2.fail = False
  out = fdl.build(n2)
  return out[0] == 2
