import fiddle as fdl
from fiddle.experimental import auto_config

class A:
  def __init__(self, x, y=None): self.x, self.y = x, y
  def __eq__(self, o): return type(o) is A and (self.x, self.y) == (o.x, o.y)

def mk(z, w=0): return ('mk', z, w)

@auto_config.auto_config
def prog0(p, q):
  a = A(p, y=[q, p])
  return A(a, y=mk(a, w=q))

@auto_config.auto_config(experimental_allow_control_flow=True)
def prog1(p, q):
  if p > q:
    return A(p)
  return A(q, y=[A(i) for i in range(2)])
