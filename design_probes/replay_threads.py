"""Spike: enforce a schedule of (thread, lineno) events on real threads via sys.settrace line gating."""
import sys, threading, os
import fiddle as fdl
from fiddle._src import building
FILE = building.__file__
# find line numbers of the guard's shared accesses from source text
src = open(FILE).read().split('\n')
def ln(text): return next(i + 1 for i, l in enumerate(src) if text in l)
L_LOAD = ln('if _state.in_build:'); L_SET = ln('_state.in_build = True'); L_CLR = ln('_state.in_build = False')
# schedule from the BMC counterexample: T0 load, T0 set, T1 load (sees True -> raises), T0 clear
SCHED = [(0, L_LOAD), (0, L_SET), (1, L_LOAD), (0, L_CLR)]
cv = threading.Condition(); pos = [0]; done = set()
def gate(tid, lineno):
  with cv:
    # is this (tid, lineno) a scheduled event still ahead?
    while True:
      rest = SCHED[pos[0]:]
      if (tid, lineno) not in rest: return            # unscheduled line: run freely
      # skip events of finished threads
      while pos[0] < len(SCHED) and SCHED[pos[0]][0] in done: pos[0] += 1
      if pos[0] < len(SCHED) and SCHED[pos[0]] == (tid, lineno):
        pos[0] += 1; cv.notify_all(); return
      cv.wait(timeout=5)
def make_tracer(tid):
  def local(frame, event, arg):
    if event == 'line': gate(tid, frame.f_lineno)
    return local
  def glob(frame, event, arg):
    if frame.f_code.co_filename == FILE and frame.f_code.co_name == '_in_build': return local
    return None
  return glob
def f(x): return x
results = {}
def worker(tid):
  sys.settrace(make_tracer(tid))
  try:
    results[tid] = ('ok', fdl.build(fdl.Config(f, tid)))
  except Exception as e:
    results[tid] = ('EXC', type(e).__name__, str(e)[:60])
  finally:
    sys.settrace(None)
    with cv: done.add(tid); cv.notify_all()
ts = [threading.Thread(target=worker, args=(i,)) for i in range(2)]
for t in ts: t.start()
for t in ts: t.join(20)
print(os.path.dirname(FILE), results)
