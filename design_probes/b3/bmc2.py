"""Spike: generic BMC over micro-op programs produced by tr.Gen. Threads run 'programs' = list of micro-ops
(with 'body' expanded to k local steps or nested program). Shared/per-thread decided by Mod.is_thread_local."""
import sys, time, z3, ast
import tr

def expand(ops, body_ops):
  """Inline body_ops at the 'body' marker; fix jump targets."""
  out = []; remap = {}
  for i, o in enumerate(ops):
    remap[i] = len(out)
    if o[0] == 'body': out.extend([list(b) for b in body_ops])
    else: out.append(list(o))
  remap[len(ops)] = len(out)
  for o in out:
    if o[0] == 'br' and o[-1] != 'fixed': o[2], o[3] = remap[o[2]], remap[o[3]]; o.append('fixed')
    if o[0] == 'jmp' and o[-1] != 'fixed': o[1] = remap[o[1]]; o.append('fixed')
  return out

class System:
  def __init__(self, progs, locs, thread_local):
    """progs: list of op lists (one per thread). locs: dict loc -> initial value (bool/int). thread_local: set of locs."""
    self.progs, self.locs, self.tl = progs, locs, thread_local
    self.T = len(progs)
  def bmc(self, K=None):
    T = self.T; K = K or sum(len(p) for p in self.progs)
    s = z3.Solver(); s.set('timeout', 60000)
    def var(name, init, step):
      return (z3.Bool if isinstance(init, bool) else z3.Int)(f'{name}@{step}')
    tmps = sorted({o[1] for p in self.progs for o in p if o[0] in ('load', 'fetchadd')})
    def mk(step):
      st = {'pc': [z3.Int(f'pc{i}@{step}') for i in range(T)], 'err': [z3.Bool(f'err{i}@{step}') for i in range(T)],
            'ev': [z3.Int(f'ev{i}@{step}') for i in range(T)], 'last': [z3.Int(f'last{i}@{step}') for i in range(T)],
            'mono': [z3.Bool(f'mono{i}@{step}') for i in range(T)]}
      for loc, init in self.locs.items():
        n = T if loc in self.tl else 1
        st[loc] = [var(f'{loc[0]}.{loc[1]}#{j}', init, step) for j in range(n)]
      for t in tmps:
        st[t] = [z3.Int(f'{t}_{i}@{step}') for i in range(T)]   # tmps hold ints (bools as 0/1)
      return st
    S = [mk(k) for k in range(K + 1)]
    sched = [z3.Int(f'sched{k}') for k in range(K)]
    cell = lambda st, loc, i: st[loc][i if loc in self.tl else 0]
    toint = lambda v: z3.If(v, 1, 0) if z3.is_bool(v) else v
    def ev(e, st, i):
      if e[0] == 'const': return {True: z3.IntVal(1), False: z3.IntVal(0), None: z3.IntVal(0)}.get(e[1], z3.IntVal(e[1]) if isinstance(e[1], int) else z3.IntVal(0))
      if e[0] == 'tmp': return st[e[1]][i]
      if e[0] == 'not': return z3.If(ev(e[1], st, i) != 0, 0, 1)
      raise NotImplementedError(e)
    s0 = S[0]
    for i in range(T):
      s.add(s0['pc'][i] == 0, z3.Not(s0['err'][i]), s0['ev'][i] == 0, s0['last'][i] == -1, s0['mono'][i])
      for t in tmps: s.add(s0[t][i] == 0)
    for loc, init in self.locs.items():
      for c in s0[loc]: s.add(c == init)
    keys = [k for k in s0 if k not in ('pc',)]
    for k in range(K):
      A, B = S[k], S[k + 1]
      s.add(sched[k] >= 0, sched[k] <= T)
      allfin = z3.And([A['pc'][j] >= len(self.progs[j]) for j in range(T)])
      s.add((sched[k] == T) == allfin)   # idle iff everybody finished; never schedule a finished thread
      for j in range(T): s.add(z3.Implies(sched[k] == j, A['pc'][j] < len(self.progs[j])))
      for i in range(T):
        me = sched[k] == i
        prog = self.progs[i]; L = len(prog)
        # frame: everything private to thread i unchanged if not scheduled
        priv = [B['pc'][i] == A['pc'][i], B['err'][i] == A['err'][i], B['ev'][i] == A['ev'][i], B['last'][i] == A['last'][i], B['mono'][i] == A['mono'][i]]
        priv += [B[t][i] == A[t][i] for t in tmps]
        priv += [B[loc][i] == A[loc][i] for loc in self.locs if loc in self.tl]
        s.add(z3.Implies(z3.Not(me), z3.And(priv)))
        # scheduled: dispatch on pc
        for pc, o in enumerate(prog):
          here = z3.And(me, A['pc'][i] == pc)
          eff = {}   # key -> new value for thread i's private/ shared cell
          nxt = z3.IntVal(pc + 1)
          if o[0] == 'load': eff[('tmp', o[1])] = toint(cell(A, o[2], i))
          elif o[0] == 'store':
            v = ev(o[2], A, i); init = self.locs[o[1]]
            eff[('loc', o[1])] = (v != 0) if isinstance(init, bool) else v
          elif o[0] == 'fetchadd':
            eff[('tmp', o[1])] = cell(A, o[2], i); eff[('loc', o[2])] = cell(A, o[2], i) + 1
          elif o[0] == 'br': nxt = z3.If(ev(o[1], A, i) != 0, o[2], o[3])
          elif o[0] == 'jmp': nxt = z3.IntVal(o[1])
          elif o[0] == 'raise': eff['err'] = z3.BoolVal(True); nxt = z3.IntVal(L)
          elif o[0] == 'event':   # record history entry with sequence id in tmp o[1]
            seq = A[o[1]][i]
            eff['ev'] = A['ev'][i] + 1; eff['mono'] = z3.And(A['mono'][i], seq > A['last'][i]); eff['last'] = seq
          elif o[0] in ('local', 'endfinally', 'ret'): pass
          else: raise NotImplementedError(o)
          cons = [B['pc'][i] == nxt]
          cons.append(B['err'][i] == eff.get('err', A['err'][i]))
          cons.append(B['ev'][i] == eff.get('ev', A['ev'][i])); cons.append(B['last'][i] == eff.get('last', A['last'][i])); cons.append(B['mono'][i] == eff.get('mono', A['mono'][i]))
          for t in tmps: cons.append(B[t][i] == eff.get(('tmp', t), A[t][i]))
          for loc in self.locs:
            if loc in self.tl: cons.append(B[loc][i] == eff.get(('loc', loc), A[loc][i]))
          s.add(z3.Implies(here, z3.And(cons)))
        s.add(z3.Implies(z3.And(me, A['pc'][i] >= L), z3.And(priv)))   # finished thread: stutter
      # shared cells: updated by the scheduled thread's op, else unchanged
      for loc in self.locs:
        if loc in self.tl: continue
        new = A[loc][0]
        for i in range(T):
          for pc, o in enumerate(self.progs[i]):
            here = z3.And(sched[k] == i, A['pc'][i] == pc)
            if o[0] == 'store' and o[1] == loc:
              v = ev(o[2], A, i); new = z3.If(here, (v != 0) if isinstance(self.locs[loc], bool) else v, new)
            if o[0] == 'fetchadd' and o[2] == loc: new = z3.If(here, A[loc][0] + 1, new)
        s.add(B[loc][0] == new)
    return s, S, sched, K

def observe_alone(prog, locs, tl):
  sysm = System([prog], locs, tl); s, S, sched, K = sysm.bmc()
  assert str(s.check()) == 'sat'; m = s.model()
  return z3.is_true(m.eval(S[K]['err'][0])), m.eval(S[K]['ev'][0]).as_long()

if __name__ == '__main__':
  repo = sys.argv[1] if len(sys.argv) > 1 else '/repo'
  b = tr.Mod(repo + '/fiddle/_src/building.py'); h = tr.Mod(repo + '/fiddle/_src/history.py')
  # ---- system 1: two builds with 2-step bodies
  guard = tr.Gen(b).function('_in_build')
  prog = expand(guard, [['local'], ['local']])
  locs = {('_state', 'in_build'): b.attr_defaults('_BuildGuardState')['in_build']}
  tl = set(locs) if b.is_thread_local('_BuildGuardState') else set()
  alone = observe_alone(prog, locs, tl)
  sysm = System([prog, prog], locs, tl); s, S, sched, K = sysm.bmc()
  s.add(z3.Or([S[K]['err'][i] != alone[0] for i in range(2)]))
  t = time.time(); r = s.check(); print('build||build: thread-local =', bool(tl), '->', r, round(time.time() - t, 2), 's', 'K =', K)
  if str(r) == 'sat':
    m = s.model(); sc = [m[x].as_long() for x in sched]
    print('  schedule', sc, ' lines', [(i, prog[0][-2] if False else None) for i in sc][:0])
  # ---- system 2: T0 = with suspend_tracking(): edit ; T1 = edit   (edit = if enabled: seq=next(counter); event)
  susp = tr.Gen(h).function('suspend_tracking')
  edit = [['load', 'te', ('_tracking_state', 'enabled'), 0], ['br', ('tmp', 'te'), 2, 4, 0], ['fetchadd', 'ts', ('_set_counter', None), 0], ['event', 'ts'], ['ret', None]]
  def reloc(ops, base):   # shift jump targets when embedding
    out = []
    for o in ops:
      o = list(o)
      if o[0] == 'br': o[2] += base; o[3] += base
      if o[0] == 'jmp': o[1] += base
      out.append(o)
    return out
  idx_body = next(i for i, o in enumerate(susp) if o[0] == 'body')
  p0 = expand(susp, reloc(edit[:-1], idx_body))
  p1 = [list(o) for o in edit]
  locs = {('_tracking_state', 'enabled'): h.attr_defaults('_TrackingState')['enabled'], ('_set_counter', None): 0}
  tl = {('_tracking_state', 'enabled')} if h.is_thread_local('_TrackingState') else set()
  a0, a1 = observe_alone(p0, locs, tl), observe_alone(p1, locs, tl)
  print('alone observations: suspended-edit', a0, ' plain edit', a1)
  sysm = System([p0, p1], locs, tl); s, S, sched, K = sysm.bmc()
  s.add(z3.Or(S[K]['ev'][0] != a0[1], S[K]['ev'][1] != a1[1], z3.Not(S[K]['mono'][0]), z3.Not(S[K]['mono'][1])))
  t = time.time(); r = s.check(); print('suspend-edit||edit: thread-local =', bool(tl), '->', r, round(time.time() - t, 2), 's', 'K =', K)
  if str(r) == 'sat':
    m = s.model(); print('  schedule', [m[x].as_long() for x in sched], 'entries', [m.eval(S[K]['ev'][i]) for i in range(2)])
