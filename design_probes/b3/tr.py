"""Spike: AST -> micro-step CFG for tiny thread-state functions, + z3 BMC over symbolic schedules.
Subset: module-level objects with attributes, module globals, if/raise, try/finally, contextmanager generators
(yield = run body), assignment, calls to same-module functions (inlined), next(counter)."""
import ast, sys, z3, time

class Mod:
  def __init__(self, path):
    self.tree = ast.parse(open(path).read())
    self.funcs = {n.name: n for n in ast.walk(self.tree) if isinstance(n, ast.FunctionDef)}
    self.classes = {n.name: n for n in self.tree.body if isinstance(n, ast.ClassDef)}
    self.globals = {}   # name -> ('obj', classname) | ('counter',) | ('plain', const)
    for n in self.tree.body:
      if isinstance(n, ast.Assign) and len(n.targets) == 1 and isinstance(n.targets[0], ast.Name):
        v = n.value; name = n.targets[0].id
        if isinstance(v, ast.Call) and isinstance(v.func, ast.Name) and v.func.id in self.classes:
          self.globals[name] = ('obj', v.func.id)
        elif isinstance(v, ast.Call) and ast.unparse(v.func) == 'itertools.count':
          self.globals[name] = ('counter',)
        elif isinstance(v, ast.Constant):
          self.globals[name] = ('plain', v.value)
  def is_thread_local(self, cls):
    return any(ast.unparse(b) == 'threading.local' for b in self.classes[cls].bases)
  def attr_defaults(self, cls):
    out = {}
    for n in ast.walk(self.classes[cls]):
      if isinstance(n, ast.AnnAssign) and isinstance(n.target, ast.Name) and isinstance(n.value, ast.Constant):
        out[n.target.id] = n.value.value
      if isinstance(n, ast.Assign) and isinstance(n.targets[0], ast.Attribute) and ast.unparse(n.targets[0].value) == 'self' and isinstance(n.value, ast.Constant):
        out[n.targets[0].attr] = n.value.value
    return out

# ---- micro-ops: ('load', tmp, loc) ('store', loc, expr) ('br', expr, Ltrue, Lfalse) ('jmp', L) ('raise',) ('body',) ('fetchadd', tmp, loc) ('ret', expr) ('event', name, expr)
class Gen:
  def __init__(self, mod):
    self.mod, self.ops, self.ntmp = mod, [], 0
  def tmp(self):
    self.ntmp += 1; return f't{self.ntmp}'
  def emit(self, *op):
    self.ops.append(list(op)); return len(self.ops) - 1
  def loc(self, node):
    if isinstance(node, ast.Attribute) and isinstance(node.value, ast.Name) and node.value.id in self.mod.globals:
      kind = self.mod.globals[node.value.id]
      assert kind[0] == 'obj', node.value.id
      return (node.value.id, node.attr)
    if isinstance(node, ast.Name) and node.id in self.mod.globals:
      return (node.id, None)
    return None
  def expr(self, node, env):
    """Returns a python-side expression tree over tmps/constants; emits loads for shared locations."""
    if isinstance(node, ast.Constant): return ('const', node.value)
    l = self.loc(node)
    if l is not None:
      t = self.tmp(); self.emit('load', t, l, node.lineno); return ('tmp', t)
    if isinstance(node, ast.Name):
      if node.id in env: return env[node.id]
      raise NotImplementedError(f'name {node.id}')
    if isinstance(node, ast.UnaryOp) and isinstance(node.op, ast.Not): return ('not', self.expr(node.operand, env))
    if isinstance(node, ast.Call) and isinstance(node.func, ast.Name):
      if node.func.id == 'next' and self.loc(node.args[0]) is not None:
        t = self.tmp(); self.emit('fetchadd', t, self.loc(node.args[0]), node.lineno); return ('tmp', t)
      if node.func.id in self.mod.funcs:
        return self.inline(self.mod.funcs[node.func.id], node, env)
    raise NotImplementedError(ast.dump(node)[:80])
  def inline(self, fn, call, env):
    new_env = {}
    params = [a.arg for a in fn.args.args + fn.args.kwonlyargs]
    for p, a in zip(params, call.args): new_env[p] = self.expr(a, env)
    for kw in call.keywords: new_env[kw.arg] = self.expr(kw.value, env)
    ret = [('const', None)]
    for st in fn.body:
      if isinstance(st, ast.Expr) and isinstance(st.value, ast.Constant): continue  # docstring
      if isinstance(st, ast.Return):
        ret[0] = self.expr(st.value, new_env); break
      self.stmt(st, new_env, None)
    return ret[0]
  def stmt(self, st, env, body_hook):
    if isinstance(st, ast.Expr) and isinstance(st.value, ast.Constant): return
    if isinstance(st, ast.Assign):
      tgt = st.targets[0]; val = self.expr(st.value, env)
      l = self.loc(tgt)
      if l is not None: self.emit('store', l, val, st.lineno)
      else: env[tgt.id] = val
      return
    if isinstance(st, ast.Expr) and isinstance(st.value, ast.Call):
      self.expr(st.value, env); return
    if isinstance(st, ast.Expr) and isinstance(st.value, ast.Yield):
      self.emit('body', st.lineno); return
    if isinstance(st, ast.If):
      c = self.expr(st.test, env)
      br = self.emit('br', c, None, None, st.lineno)
      self.ops[br][2] = len(self.ops)
      for s in st.body: self.stmt(s, env, body_hook)
      j = self.emit('jmp', None)
      self.ops[br][3] = len(self.ops)
      for s in st.orelse: self.stmt(s, env, body_hook)
      self.ops[j][1] = len(self.ops)
      return
    if isinstance(st, ast.Raise):
      self.emit('raise', st.lineno); return
    if isinstance(st, ast.Try) and st.finalbody and not st.handlers:
      start = len(self.ops)
      for s in st.body: self.stmt(s, env, body_hook)
      # mark: a failing body jumps to finalbody then re-raises; normal falls through finalbody
      fin = len(self.ops)
      for s in st.finalbody: self.stmt(s, env, body_hook)
      self.emit('endfinally', start, fin)
      return
    raise NotImplementedError(type(st).__name__)
  def function(self, name):
    fn = self.mod.funcs[name]; env = {}
    for st in fn.body: self.stmt(st, env, None)
    self.emit('ret', ('const', None))
    return self.ops

def show(ops):
  for i, o in enumerate(ops): print(i, o)

if __name__ == '__main__':
  repo = sys.argv[1] if len(sys.argv) > 1 else '/repo'
  b = Mod(repo + '/fiddle/_src/building.py'); h = Mod(repo + '/fiddle/_src/history.py')
  print('building globals', b.globals, {c: b.is_thread_local(c) for c in b.classes if c.startswith('_B')}, b.attr_defaults('_BuildGuardState'))
  print('history globals', {k: v for k, v in h.globals.items() if k.startswith('_')}, h.is_thread_local('_TrackingState'), h.attr_defaults('_TrackingState'))
  print('--- _in_build'); show(Gen(b).function('_in_build'))
  print('--- suspend_tracking'); show(Gen(h).function('suspend_tracking'))
  g = Gen(h); print('--- History.add_new_value');
  fn = [n for n in ast.walk(h.tree) if isinstance(n, ast.FunctionDef) and n.name == 'add_new_value'][0]
  try:
    for st in fn.body: g.stmt(st, {'self': ('hist',), 'param_name': ('p',), 'value': ('v',)}, None)
    show(g.ops)
  except NotImplementedError as e: print('untranslatable:', e)
