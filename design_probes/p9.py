from typing import Union
import fiddle as fdl

def g(x=None, y=None): return (x, y)

def eq_total(k1: Union[int, str], k2: Union[int, str], v: int) -> bool:
  """
  pre: k1 != k2
  post: _
  """
  a = fdl.Config(g, x={k1: [v], k2: [v]})
  b = fdl.Config(g, x={k2: [v], k1: [v]})
  return a == b and b == a
