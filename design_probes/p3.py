from typing import Optional, List, Union, Dict
import fiddle as fdl

def f(a, b=2, /, c=3, d=4, *args, k=None, m, **kw):
  return ('f', a, b, c, d, args, k, m, tuple(sorted(kw.items())))

def build_equals_direct(sa: bool, sb: bool, sc: bool, sd: bool, nargs: int, sk: bool, sm: bool, skw: bool,
                        va: int, vb: int, vc: int, vd: int, vk: int, vm: int, vz: int) -> bool:
  """
  pre: 0 <= nargs <= 2
  post: _
  """
  cfg = fdl.Config(f)
  if sa: cfg[0] = va
  if sb: cfg[1] = vb
  if sc: cfg.c = vc
  if sd: cfg.d = vd
  if nargs and sa and sb and sc and sd:
    cfg[fdl.VARARGS:] = [vz + j for j in range(nargs)]
  if sk: cfg.k = vk
  if sm: cfg.m = vm
  if skw: cfg.z = vz
  pos = cfg[:]
  kwargs = {k: v for k, v in fdl.ordered_arguments(cfg).items() if isinstance(k, str)}
  # reference: direct call with what the config reports
  try:
    built = fdl.build(cfg)
  except TypeError:
    # must be because a required parameter is missing
    return (not sa) or (not sm)
  # expected from model
  exp_args = []
  if sa: exp_args.append(va)
  if sb:
    if not sa: return False  # cannot form call; build must have raised
    exp_args.append(vb)
  ekw = {}
  if sc: ekw['c'] = vc
  if sd: ekw['d'] = vd
  if sk: ekw['k'] = vk
  if sm: ekw['m'] = vm
  if skw: ekw['z'] = vz
  if nargs and sa and sb and sc and sd:
    exp = f(va, vb, vc, vd, *[vz + j for j in range(nargs)], **{k: v for k, v in ekw.items() if k not in ('c','d')})
  else:
    exp = f(*exp_args, **ekw)
  return built == exp
