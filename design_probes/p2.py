from typing import Optional, List
import fiddle as fdl

def f(a, b, /, c, d=4, *args, k=None, **kw):
  return (a, b, c, d, args, k, kw)

def del_slice(start: Optional[int], stop: Optional[int], step: Optional[int], n: int) -> bool:
  """
  pre: 0 <= n <= 3
  pre: step is None or (step != 0 and -4 <= step <= 4)
  pre: start is None or -8 <= start <= 8
  pre: stop is None or -8 <= stop <= 8
  post: _
  """
  vals = [10, 20, 30, 40] + [100 + j for j in range(n)]
  cfg = fdl.Config(f, *vals)
  model = list(vals)
  idx = list(range(len(model)))[start:stop:step]
  # model: fixed prefix elements get unset (-> default or NO_VALUE), varargs removed
  fixed = 4
  defaults = [fdl.NO_VALUE, fdl.NO_VALUE, fdl.NO_VALUE, 4]
  new_fixed = [defaults[j] if j in idx else model[j] for j in range(fixed)]
  new_var = [model[j] for j in range(fixed, len(model)) if j not in idx]
  del cfg[start:stop:step]
  return cfg[:] == new_fixed + new_var
