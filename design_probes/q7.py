import fiddle as fdl
from fiddle._src.experimental import serialization as ser
from q6 import jsonify, g

def only_int(v: int) -> bool:
  """
  post: _
  """
  cfg = fdl.Config(g, x=[v])
  cfg2 = ser.Deserialization(jsonify(ser.Serialization(cfg).result)).result
  return cfg2.x[0] == v

def only_str(s: str) -> bool:
  """
  post: _
  """
  cfg = fdl.Config(g, x=[s])
  cfg2 = ser.Deserialization(jsonify(ser.Serialization(cfg).result)).result
  return cfg2.x[0] == s

def only_bool(b: bool, share: bool) -> bool:
  """
  post: _
  """
  l = [1]
  cfg = fdl.Config(g, x=l, y={'k': b, 'l': l if share else [1]})
  cfg2 = ser.Deserialization(jsonify(ser.Serialization(cfg).result)).result
  return cfg2.y['k'] is b and (cfg2.y['l'] is cfg2.x) == share and cfg2 == cfg
