from typing import Optional, List
import fiddle as fdl

def f(a, b, /, c, d=4, *args, k=None, **kw):
  return (a, b, c, d, args, k, kw)

def getitem_matches_model(i: int, n: int) -> bool:
  """
  pre: 0 <= n <= 3
  pre: -8 <= i <= 8
  post: _
  """
  vals = [10, 20, 30, 40] + [100 + j for j in range(n)]
  cfg = fdl.Config(f, *vals)
  model = list(vals)
  try:
    got = cfg[i]
  except IndexError:
    return not (-len(model) <= i < len(model))
  return (-len(model) <= i < len(model)) and got == model[i]

def slice_get(start: Optional[int], stop: Optional[int], step: Optional[int], n: int) -> bool:
  """
  pre: 0 <= n <= 3
  pre: step is None or step != 0
  post: _
  """
  vals = [10, 20, 30, 40] + [100 + j for j in range(n)]
  cfg = fdl.Config(f, *vals)
  return cfg[start:stop:step] == vals[start:stop:step]
