import rue_codec
try:
  rue_codec.install_into_crosshair()
except Exception as e:
  print('install failed', e)
from fiddle._src.experimental import serialization as ser

def rt_bytes(bs: bytes) -> bool:
  """
  pre: len(bs) == 6 and bs[0] == 92 and bs[1] == 117
  post: _
  """
  trav = ser.find_node_traverser(bytes)
  try:
    values, md = trav.flatten(bs)
  except UnicodeDecodeError:
    return True
  return trav.unflatten(values, md) == bs
