import time, collections
import crosshair.core as core
_orig = core.consider_shortcircuit
def no_sc(fn, sig, bound, subconditions, allow_interpretation):
  if allow_interpretation: return None
  return _orig(fn, sig, bound, subconditions, allow_interpretation)
core.consider_shortcircuit = no_sc
from crosshair.core_and_libs import analyze_function, run_checkables
from crosshair.options import AnalysisOptionSet
import q15
t0 = time.time()
msgs = list(run_checkables(analyze_function(q15.cg_equiv, AnalysisOptionSet(per_condition_timeout=120, per_path_timeout=60, report_all=True))))
print([(m.state.name, m.message[:200]) for m in msgs], round(time.time() - t0, 1), 'fixtures generated:', next(q15._CTR))
