import time, sys
import z3
_t = {'n': 0, 's': 0.0}
_orig = z3.Solver.check
def _check(self, *a):
  t = time.perf_counter()
  try: return _orig(self, *a)
  finally:
    _t['n'] += 1; _t['s'] += time.perf_counter() - t
z3.Solver.check = _check
from crosshair.core_and_libs import analyze_function, run_checkables, MessageType
from crosshair.options import AnalysisOptionSet
from crosshair.options import DEFAULT_OPTIONS
import p1
opts = AnalysisOptionSet(per_condition_timeout=60, report_all=True, per_path_timeout=10)
t0 = time.time()
for m in run_checkables(analyze_function(p1.getitem_matches_model, opts)):
  print(m.state, m.message[:200], m.line)
print('z3 checks', _t, 'wall', time.time() - t0)
