import functools
import fiddle as fdl
from fiddle import arg_factory
from fiddle.experimental import auto_config
from fiddle._src.experimental import with_tags as wt
from lib0 import A, B, f, T0, canon

def helper(x): return ('helper', x)

@auto_config.auto_config
def other(z): return A(z, y=[z])

def factory(_a, __auto_config_zzz, zz):
  @auto_config.auto_config
  def inner(p):
    return A(_a, y=[__auto_config_zzz, zz, p])
  return inner

@auto_config.auto_config
def splat(p, q):
  args = [p, q]
  kw = {'y': A(q)}
  return A(*args[:1], **kw)

@auto_config.auto_config
def partials(p):
  return [functools.partial(A, x=p), arg_factory.partial(A, x=B), auto_config.exempt(helper)(p), (lambda: A(p))()]

@auto_config.auto_config
def shared(p):
  s = A(p)
  return A(s, y={'k': s, 'o': other(p)})

class K:
  @auto_config.auto_config
  @staticmethod
  def make(p): return A(p)
  @auto_config.auto_config
  @classmethod
  def cmake(cls, p): return [cls, A(p)]

@auto_config.auto_config(experimental_allow_control_flow=True)
def cf(p, q):
  out = []
  for i in range(2):
    out.append(A(i if p > q else q))
  return [A(j) for j in out if p != 3]
