"""Throw-away probe helpers (NOT framework code)."""
import collections
import fiddle as fdl
from fiddle._src import config as config_lib

class T0(fdl.Tag):
  "t0"
class T1(T0):
  "t1"
class U(fdl.Tag):
  "u"

class A:
  def __init__(self, x=None, y=None): self.x, self.y = x, y
class B(A): pass
def f(x=None, y=None): return ('f', x, y)
def fp(a, b=2, /, c=3, *args, k=None): return ('fp', a, b, c, args, k)
NT = collections.namedtuple('NT', ['p', 'q'])

def canon(x, memo=None):
  memo = {} if memo is None else memo
  if isinstance(x, (list, dict, tuple, config_lib.Buildable, A)) and x != ():
    if id(x) in memo: return ('ref', memo[id(x)])
    memo[id(x)] = len(memo)
  if isinstance(x, config_lib.Buildable):
    args = fdl.ordered_arguments(x)
    tags = {k: tuple(sorted(t.__name__ for t in v)) for k, v in x.__argument_tags__.items() if v}
    return (type(x).__name__, getattr(fdl.get_callable(x), '__name__', '?'),
            tuple((k, canon(v, memo)) for k, v in args.items()), tuple(sorted(tags.items(), key=str)))
  if isinstance(x, A): return (type(x).__name__, canon(x.x, memo), canon(x.y, memo))
  if isinstance(x, dict): return ('dict', tuple(sorted(((repr(k), canon(v, memo)) for k, v in x.items()))))
  if isinstance(x, list): return ('list', tuple(canon(v, memo) for v in x))
  if isinstance(x, tuple): return (type(x).__name__, tuple(canon(v, memo) for v in x))
  return x

def wrap(kind, v):
  return [v, [v], (v,), {'k': v}, NT(v, 1)][kind]

def fam(e1, e2x, e2y, w, kinds, leaf):
  """3 nodes; n1.x -> n0|leaf ; n2.x, n2.y -> n0|n1|leaf; kinds bitmask: node i is Partial / class B."""
  mk = lambda i, c: (fdl.Partial if (kinds >> i) & 1 else fdl.Config)(c)
  n0 = mk(0, A); n0.x = leaf
  n1 = mk(1, B if kinds & 8 else f)
  n1.x = wrap(w, n0) if e1 == 0 else leaf
  n2 = mk(2, f)
  pick = lambda e: leaf if e < 0 else wrap(w, [n0, n1][e])
  n2.x = pick(e2x); n2.y = pick(e2y)
  return n2, [n0, n1, n2]
