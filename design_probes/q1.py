import copy, pickle
try:
  from crosshair import realize
except Exception:
  realize = lambda x: x
import fiddle as fdl
from fiddle._src import tagging

class T0(fdl.Tag):
  "t0"

def g(x=None, y=None): return (x, y)

def deepcopy_independent(v: int, w: int, op: int) -> bool:
  """
  pre: 0 <= op <= 2
  post: _
  """
  if op == 1:
    v = realize(v); w = realize(w)
  inner = fdl.Config(g, x=[v])
  cfg = fdl.Config(g, x=inner, y={'k': inner})
  tagging.add_tag(cfg, 'x', T0)
  if op == 0: c = copy.deepcopy(cfg)
  elif op == 1: c = pickle.loads(pickle.dumps(cfg))
  else: c = copy.copy(cfg)
  ok = (c == cfg) and (c.x is c.y['k'])
  c.y = w
  tagging.remove_tag(c, 'x', T0)
  ok = ok and cfg.y['k'] is inner and tagging.get_tags(cfg, 'x') == {T0}
  if op != 2:
    c.x.x.append(w)
    ok = ok and cfg.x.x == [v]
  return ok
