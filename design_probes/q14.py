import copy
import fiddle as fdl
from fiddle._src import diffing
def g(x=None, y=None, z=None): return (x, y, z)
def h(x=None, y=None): return ('h', x, y)

def diff_rt(e1: int, e2: int, v: int, w: int) -> bool:
  """
  pre: 0 <= e1 <= 4 and 0 <= e2 <= 4
  pre: 0 <= v <= 2 and 0 <= w <= 2
  post: _
  """
  def mk():
    inner = fdl.Config(g, x=[v, 1], y='some-long-string-value-to-align')
    return fdl.Config(g, x=inner, y={'k': inner}, z=fdl.Config(h, x=v))
  old, new = mk(), mk()
  for e in (e1, e2):
    if e == 0: new.x.x[0] = w
    elif e == 1: new.z = fdl.Config(h, y=w)
    elif e == 2: new.y['k'] = copy.deepcopy(new.x)
    elif e == 3: del new.x.y
    else: fdl.update_callable(new.z, g)
  d = diffing.build_diff(old, new)
  c = copy.deepcopy(old)
  diffing.apply_diff(d, c)
  return c == new and (c.y['k'] is c.x) == (new.y['k'] is new.x)
