"""Spike: translate a Python `re` pattern (parsed by re._parser) into a z3 regex. ASCII under-approximation for \w, \d."""
import re, z3
import re._parser as sp
import re._constants as sc
S = z3.StringSort(); R = z3.ReSort(S)
ANY = z3.AllChar(R)
def rng(a, b): return z3.Range(chr(a), chr(b))
CAT = {
  sc.CATEGORY_DIGIT: rng(48, 57),
  sc.CATEGORY_WORD: z3.Union(rng(48, 57), rng(65, 90), rng(97, 122), z3.Re('_')),
  sc.CATEGORY_SPACE: z3.Union(*[z3.Re(c) for c in ' \t\n\r\f\v']),
}
def charset(items):
  neg = False; parts = []
  for op, av in items:
    if op is sc.NEGATE: neg = True
    elif op is sc.LITERAL: parts.append(z3.Re(chr(av)))
    elif op is sc.RANGE: parts.append(rng(av[0], av[1]))
    elif op is sc.CATEGORY: parts.append(CAT[av])
    else: raise NotImplementedError(op)
  u = parts[0] if len(parts) == 1 else z3.Union(*parts)
  return z3.Intersect(ANY, z3.Complement(u)) if neg else u
def seq(items):
  rs = [node(op, av) for op, av in items]
  if not rs: return z3.Re('')
  return rs[0] if len(rs) == 1 else z3.Concat(*rs)
def node(op, av):
  if op is sc.LITERAL: return z3.Re(chr(av))
  if op is sc.NOT_LITERAL: return z3.Intersect(ANY, z3.Complement(z3.Re(chr(av))))
  if op is sc.ANY: return z3.Intersect(ANY, z3.Complement(z3.Re('\n')))
  if op is sc.IN: return charset(av)
  if op is sc.BRANCH: return z3.Union(*[seq(alt) for alt in av[1]])
  if op is sc.SUBPATTERN: return seq(av[3])
  if op in (sc.MAX_REPEAT, sc.MIN_REPEAT):
    lo, hi, sub = av; r = seq(sub)
    if hi is sc.MAXREPEAT:
      return z3.Star(r) if lo == 0 else (z3.Plus(r) if lo == 1 else z3.Concat(*([r] * lo + [z3.Star(r)])))
    return z3.Loop(r, lo, hi)
  if op is sc.AT: return z3.Re('')   # ^ $ anchors: callers use fullmatch semantics
  raise NotImplementedError(op)
def to_z3(pattern): return seq(sp.parse(pattern))

if __name__ == '__main__':
  import time
  from fiddle._src import daglish_extensions as de
  from fiddle._src.absl_flags import utils, flags
  for name, pat in [('PATH_PART', de._PATH_PART.pattern), ('COMMAND', flags._COMMAND_RE.pattern), ('CALL', utils.CallExpression._PARSE_RE.pattern)]:
    t = time.time(); r = to_z3(pat); print(name, 'translated', round(time.time() - t, 3), 's')
    # validation: strings through re.fullmatch and z3 membership
    tests = [".a", ".a_b1", "['k']", '["k"]', "[12]", "['']", "[-1]", ".a.b", "x", "config:foo", "set:x=1", "bogus:1", "fn(1, x=2)", "a.b.c", "fn(", "f()"]
    bad = 0
    for sx in tests:
      py = re.fullmatch(pat, sx) is not None
      s = z3.Solver(); s.set('timeout', 10000); s.add(z3.InRe(z3.StringVal(sx), r))
      zz = str(s.check()) == 'sat'
      if py != zz: bad += 1; print('  MISMATCH', repr(sx), py, zz)
    print('  validated', len(tests), 'mismatches', bad)
