from typing import Optional
import fiddle as fdl
def f(a, b, /, c, d=4, *args, k=None, **kw): pass
def g(a, b, /, c, d=4): pass

def model_view(vals, F, defaults):
  return [vals[j] if j < len(vals) and vals[j] is not None else defaults[j] for j in range(F)] + list(vals[F:])

def del_slice(start: Optional[int], stop: Optional[int], step: Optional[int], n: int, va: bool) -> bool:
  """
  pre: 0 <= n <= 3
  pre: step is None or (step != 0 and -3 <= step <= 3)
  pre: start is None or -8 <= start <= 8
  pre: stop is None or -8 <= stop <= 8
  post: _
  """
  fn = f if va else g
  vals = [10, 20, 30, 40] + ([100 + j for j in range(n)] if va else [])
  cfg = fdl.Config(fn, *vals)
  idx = list(range(len(vals)))[start:stop:step]
  defaults = [fdl.NO_VALUE, fdl.NO_VALUE, fdl.NO_VALUE, 4]
  new_fixed = [defaults[j] if j in idx else vals[j] for j in range(4)]
  new_var = [vals[j] for j in range(4, len(vals)) if j not in idx]
  del cfg[start:stop:step]
  return cfg[:] == new_fixed + new_var

def set_slice(start: Optional[int], stop: Optional[int], step: Optional[int], n: int, m: int, va: bool) -> bool:
  """
  pre: 0 <= n <= 2 and 0 <= m <= 3
  pre: step is None or (step != 0 and -2 <= step <= 2)
  pre: start is None or -7 <= start <= 7
  pre: stop is None or -7 <= stop <= 7
  post: _
  """
  fn = f if va else g
  vals = [10, 20, 30, 40] + ([100 + j for j in range(n)] if va else [])
  new = [900 + j for j in range(m)]
  cfg = fdl.Config(fn, *vals)
  idx = range(*slice(start, stop, step).indices(len(vals)))
  touches_prefix = (len(idx) > 0 and min(idx) < 4) or (len(idx) == 0 and idx.start < 4) or not va
  expect = list(vals); err = None
  if touches_prefix:
    if len(new) != len(idx): err = ValueError
    else:
      for i, v in zip(idx, new): expect[i] = v
  else:
    try: expect[start:stop:step] = new
    except ValueError: err = ValueError
  try:
    cfg[start:stop:step] = new
  except Exception as e:
    return err is not None and isinstance(e, err) and cfg[:] == vals
  return err is None and cfg[:] == expect
