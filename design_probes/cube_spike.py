import importlib, inspect, time
from crosshair.core_and_libs import analyze_function, run_checkables
from crosshair.options import AnalysisOptionSet
import p2, p1
def ann(p):
  a = p.annotation
  return getattr(a, '__name__', None) if not str(a).startswith('typing.') else str(a).replace('typing.', '')
def cube(fn, extra_pre, tag, twin=False):
  sig = inspect.signature(fn)
  params = ', '.join(f"{n}: {ann(p)}" for n, p in sig.parameters.items())
  names = ', '.join(sig.parameters)
  pres = [l.strip() for l in fn.__doc__.split('\n') if l.strip().startswith('pre:')] + ['pre: ' + e for e in extra_pre]
  doc = '\n  '.join(pres + ['post: _'])
  body = f"  _m.{fn.__name__}({names})\n  return False\n" if twin else f"  return _m.{fn.__name__}({names})\n"
  src = f"from typing import Optional, Union\nimport {fn.__module__} as _m\n\ndef {fn.__name__}_{tag}({params}) -> bool:\n  \"\"\"\n  {doc}\n  \"\"\"\n{body}"
  modname = f"_cube_{fn.__module__}_{fn.__name__}_{tag}"
  open(f'/tmp/probe/{modname}.py', 'w').write(src)
  return getattr(importlib.import_module(modname), f"{fn.__name__}_{tag}")
def run(fn, timeout):
  t0 = time.time()
  msgs = list(run_checkables(analyze_function(fn, AnalysisOptionSet(per_condition_timeout=timeout, report_all=True))))
  return [(m.state.name, m.message[:110]) for m in msgs], round(time.time() - t0, 2)
print(run(cube(p2.del_slice, ['step is None or step > 0'], 'k1'), 200))
for n in range(4):
  print(n, run(cube(p1.getitem_matches_model, [f'n == {n}'], f'n{n}'), 30))
