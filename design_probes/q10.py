import rue_codec
rue_codec.install_into_crosshair()
CALLS = []
def dec_only(bs: bytes) -> bool:
  """
  pre: len(bs) == 6
  post: _
  """
  try:
    s = bs.decode('raw_unicode_escape')
  except UnicodeDecodeError:
    return True
  return len(s) != 1
