import sys, types
import fiddle as fdl
from absl import flags
from fiddle._src.absl_flags import flags as ff

def g(x=0, y=0): return (x, y)
mod = types.ModuleType('q5mod')
def base(): return fdl.Config(g)
def base2(x=5): return fdl.Config(g, x=x)
def f1(cfg): cfg.y = cfg.x + 10
def f2(cfg, k=1): cfg.x = cfg.x * 2 + k
mod.base, mod.base2, mod.f1, mod.f2 = base, base2, f1, f2
ALPH = ['config:base', 'config:base2(x=7)', 'set:x=1', 'set:x=2', 'set:y=3', 'fiddler:f1', 'fiddler:f2(k=5)']

def model(seq):
  cfg = None
  for i, d in enumerate(seq):
    if d.startswith('config:'):
      if cfg is not None or i != 0: return 'ERR'
      cfg = [0, 0] if d == 'config:base' else [7, 0]
    else:
      if cfg is None: return 'ERR'
      if d == 'set:x=1': cfg[0] = 1
      elif d == 'set:x=2': cfg[0] = 2
      elif d == 'set:y=3': cfg[1] = 3
      elif d == 'fiddler:f1': cfg[1] = cfg[0] + 10
      else: cfg[0] = cfg[0] * 2 + 5
  return cfg

def directives_in_order(a: int, b: int, c: int, n: int, split: bool) -> bool:
  """
  pre: 0 <= a < 7 and 0 <= b < 7 and 0 <= c < 7 and 1 <= n <= 3
  post: _
  """
  seq = [ALPH[a], ALPH[b], ALPH[c]][:n]
  flag = ff.FiddleFlag(name='cfg', default=None, parser=flags.ArgumentParser(), serializer=None, help_string='h', default_module=mod)
  exp = model(seq)
  try:
    if split:
      for d in seq:
        flag.parse([d])
    else:
      flag.parse(seq)
    val = flag.value
  except ValueError:
    return exp == 'ERR'
  if exp == 'ERR' or exp is None: return False
  return [val.x, val.y] == exp
