import ast, inspect, types, time, json, subprocess, sys, functools
from crosshair.core_and_libs import analyze_function, run_checkables
from crosshair.options import AnalysisOptionSet
import p2  # del_slice harness (known to have a counterexample)
import p1

def clone(fn, extra_pre=(), name=None):
  lines = fn.__doc__.split('\n')
  idx = max(i for i, l in enumerate(lines) if l.strip().startswith('pre:'))
  for e in extra_pre: lines.insert(idx + 1, '  pre: ' + e)
  g = types.FunctionType(fn.__code__, fn.__globals__, name or fn.__name__, fn.__defaults__, fn.__closure__)
  g.__doc__ = '\n'.join(lines); g.__annotations__ = dict(fn.__annotations__); g.__module__ = fn.__module__
  return g

def twin(fn):
  import importlib, textwrap
  sig = inspect.signature(fn)
  params = ', '.join(f"{n}: {getattr(p.annotation, '__name__', None) or str(p.annotation).replace('typing.', '')}" for n, p in sig.parameters.items())
  names = ', '.join(sig.parameters)
  src = f"from typing import Optional, Union\nimport {fn.__module__} as _m\n\ndef {fn.__name__}_twin({params}) -> bool:\n  \"\"\"{fn.__doc__}\"\"\"\n  _m.{fn.__name__}({names})\n  return False\n"
  modname = f"_twin_{fn.__module__}_{fn.__name__}"
  open(f'/tmp/probe/{modname}.py', 'w').write(src)
  mod = importlib.import_module(modname)
  return getattr(mod, fn.__name__ + '_twin')

def parse_call(msg, fn):
  # "... when calling name(args) (which returns ...)" -> dict of args
  start = msg.index('when calling ') + len('when calling ')
  expr = msg[start:]
  # cut at matching paren
  depth = 0
  for i, ch in enumerate(expr):
    if ch == '(': depth += 1
    elif ch == ')':
      depth -= 1
      if depth == 0: expr = expr[:i + 1]; break
  call = ast.parse(expr, mode='eval').body
  args = [ast.literal_eval(a) for a in call.args]
  kwargs = {k.arg: ast.literal_eval(k.value) for k in call.keywords}
  ba = inspect.signature(fn).bind(*args, **kwargs)
  return dict(ba.arguments)

def run(fn, timeout):
  t0 = time.time()
  msgs = list(run_checkables(analyze_function(fn, AnalysisOptionSet(per_condition_timeout=timeout, report_all=True))))
  return [(m.state.name, m.message) for m in msgs], round(time.time() - t0, 2)

def replay(module, fname, args):
  code = f"import json,sys; sys.path.insert(0,'/tmp/probe'); import {module}; a=json.loads(sys.argv[1]);\ntry:\n  r={module}.{fname}(**a)\nexcept Exception as e:\n  r='EXC '+type(e).__name__\nprint(json.dumps(r))"
  out = subprocess.run(['/verif/.venv/bin/python', '-c', code, json.dumps(args)], capture_output=True, text=True)
  return out.stdout.strip().split('\n')[-1]

# 1. twin gives witness
res, dt = run(twin(p1.getitem_matches_model), 10)
print('twin:', res[0][0], parse_call(res[0][1], p1.getitem_matches_model), dt)
# 2. counterexample -> parse -> replay -> known-finding exclusion -> rerun
known = "step is None or step > 0"   # matcher complement: exclude negative steps
res, dt = run(p2.del_slice, 60)
print('cex:', res[0][0], res[0][1][:90], dt)
args = parse_call(res[0][1], p2.del_slice)
print('parsed', args, 'replay ->', replay('p2', 'del_slice', args))
res2, dt2 = run(clone(p2.del_slice, [known]), 120)
print('after exclusion:', res2[0][0], res2[0][1][:100], dt2)
