import fiddle as fdl
from fiddle._src import history

def f(a, b, /, c, d=4, *args, k=None, **kw): pass

def hist_last_equals_current(op1: int, i1: int, v1: int, op2: int, i2: int, v2: int) -> bool:
  """
  pre: 0 <= op1 <= 2 and 0 <= op2 <= 2
  pre: -7 <= i1 <= 7 and -7 <= i2 <= 7
  post: _
  """
  cfg = fdl.Config(f, 10, 20, 30, 40, 50, 60)
  for op, i, v in ((op1, i1, v1), (op2, i2, v2)):
    try:
      if op == 0: cfg[i] = v
      elif op == 1: del cfg[i]
      else: cfg[i:] = [v]
    except (IndexError, ValueError):
      pass
  h = cfg.__argument_history__
  last_seq = -1
  for key, entries in h.items():
    if key == '__fn_or_cls__': continue
    vals = [e for e in entries if e.kind == history.ChangeKind.NEW_VALUE]
    if not vals: continue
    cur = cfg.__arguments__.get(key, history.DELETED)
    if vals[-1].new_value is not cur and vals[-1].new_value != cur:
      return False
    if '/fiddle/' in vals[-1].location.filename:
      return False
  seqs = sorted(e.sequence_id for es in h.values() for e in es)
  return len(set(seqs)) == len(seqs)
