"""Declarations shared by harness modules and the driver."""
from __future__ import annotations

import dataclasses
from typing import Any, Callable, Dict, List, Optional, Sequence


@dataclasses.dataclass
class Cube:
  """One partition of an obligation: the harness's own `pre:` lines plus these."""
  tag: str
  pre: Sequence[str] = ()
  fix: Optional[Dict[str, Any]] = None   # parameters bound to constants in the generated wrapper
  est: int = 0                            # estimated paths (scheduling only: biggest first)


@dataclasses.dataclass
class Obligation:
  """A harness function (PEP-316 contract in its docstring) and how to partition it.

  kind == 'crosshair': `fn` is analysed by CrossHair once per cube.
  kind == 'direct':    `run()` discharges solver queries itself (Engine B) and returns a
                       list of DirectResult.
  """
  name: str
  fn: Optional[Callable] = None
  cubes: Sequence[Cube] = ()
  timeout: float = 60.0           # per cube, CrossHair per_condition_timeout (CPU seconds)
  path_timeout: float = 20.0
  smoke: Optional[Dict[str, Any]] = None   # concrete arguments; harness must return True on them
  extra_smokes: Sequence[Dict[str, Any]] = ()
  enumerated: bool = False        # realise-then-untrace: solver enumerates selectors only
  kind: str = 'crosshair'
  run: Optional[Callable[[], List['DirectResult']]] = None
  bounds_note: str = ''


@dataclasses.dataclass
class DirectResult:
  """Result of one direct SMT query (Engine B)."""
  name: str
  verdict: str                    # 'holds' (negation unsat) | 'violated' | 'inconclusive'
  detail: str = ''
  seconds: float = 0.0
  queries: int = 1
  model: Any = None               # concrete counterexample (JSON-able) when violated
  reproduced: Optional[bool] = None   # counterexample replayed against the real code
  sample: Any = None              # a witness / what the query ranged over
  states: int = 0
  transitions: int = 0
  finding_key: str = ''           # stable key to match known findings for direct results
