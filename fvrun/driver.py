"""Driver: partitions obligations into cubes, runs them on all cores, replays candidates,
applies the known-findings protocol and writes evidence.  See DESIGN.md section 3."""
from __future__ import annotations

import ast
import hashlib
import importlib
import json
import multiprocessing
import os
import shutil
import subprocess
import sys
import tempfile
import time
import traceback

from fvrun import worker
from fvrun.spec import Cube, DirectResult, Obligation

VERIF = '/verif'
KNOWN = os.path.join(VERIF, 'known_findings.json')


def log(*a):
  print(*a, file=sys.stderr, flush=True)


def repo_root():
  return os.environ.get('FIDDLE_VERIF_REPO', '/repo')


# ----------------------------------------------------------------------------- replay

def _replay_dir(pid):
  d = os.path.join(VERIF, 'replays', pid)
  os.makedirs(d, exist_ok=True)
  return d


def write_replay(pid, module, fn, args, message, kind='crosshair'):
  body = dict(property=pid, module=module, fn=fn, args_repr=repr(args), message=message[:2000],
              kind=kind)
  h = hashlib.md5((module + fn + repr(sorted(args.items(), key=str)) if isinstance(args, dict)
                   else module + fn + repr(args)).encode()).hexdigest()[:10]
  safe = ''.join(c if c.isalnum() or c in '_-' else '_' for c in fn)
  path = os.path.join(_replay_dir(pid), f'{safe}-{h}.json')
  with open(path, 'w') as f:
    json.dump(body, f, indent=1)
  return path


_REPLAY_SNIPPET = r'''
import ast, json, sys, importlib, traceback
body = json.load(open(sys.argv[1]))
args = ast.literal_eval(body["args_repr"])
mod = importlib.import_module(body["module"])
try:
  if body.get("kind") == "direct":
    r = mod.replay_direct(body)
  else:
    fn = getattr(mod, body["fn"])
    r = fn(**args) if isinstance(args, dict) else fn(args)
except Exception as e:
  traceback.print_exc()
  print("REPLAY raised " + type(e).__name__ + ": " + str(e)[:300])
  sys.exit(1)
print("REPLAY returned " + repr(r))
sys.exit(0 if r is True else 1)
'''


def replay_file(path, verbose=False):
  """Re-runs a counterexample in a fresh plain interpreter (no CrossHair tracing).

  Exit 0: harness returned True (does not reproduce); 1: returned False / raised (reproduces)."""
  env = dict(os.environ)
  env['PYTHONPATH'] = f"{repo_root()}:{VERIF}"
  env['FV_PLAIN_REPLAY'] = '1'
  p = subprocess.run([os.path.join(VERIF, '.venv/bin/python'), '-c', _REPLAY_SNIPPET, path],
                     capture_output=True, text=True, env=env, timeout=600)
  if verbose:
    sys.stdout.write(p.stdout)
    sys.stderr.write(p.stderr[-3000:])
  return p.returncode


def _replay_in_child(pool_ctx, path):
  """Fallback: replay from a short-lived forked child so that the driver itself never holds a subprocess pipe."""
  q = pool_ctx.SimpleQueue()

  def run():
    try:
      q.put(replay_file(path))
    except BaseException:  # pylint: disable=broad-except
      q.put(1)
  p = pool_ctx.Process(target=run)
  p.start()
  p.join(700)
  if p.is_alive():
    p.kill()
    return 1
  return q.get() if not q.empty() else 1


# ----------------------------------------------------------------------------- known findings

def load_known(pid):
  if not os.path.exists(KNOWN):
    return []
  data = json.load(open(KNOWN))
  return [f for f in data.get('findings', []) if f.get('property') == pid]


def match_known(known, harness, args):
  for f in known:
    if f.get('harness') != harness or 'matcher' not in f:
      continue
    try:
      if eval(f['matcher'], {'__builtins__': __builtins__}, dict(args)):  # pylint: disable=eval-used
        return f
    except Exception:  # matcher not applicable to these args
      continue
  return None


def match_known_direct(known, harness, key):
  for f in known:
    if f.get('harness') == harness and f.get('key') == key:
      return f
  return None


# ----------------------------------------------------------------------------- smoke runs

def smoke_run(ob, encoded, failed_args=None):
  """Runs the harness concretely on its default arguments; records fiddle functions entered."""
  import sys as _sys
  mon = getattr(_sys, 'monitoring', None)
  seen = set()
  tool = 4
  if mon is not None:
    try:
      mon.use_tool_id(tool, 'fvrun')

      def on_start(code, offset):
        fn = code.co_filename
        if '/fiddle/' in fn and '/_src/' in fn and not fn.endswith('_test.py'):
          seen.add(fn.split('/fiddle/')[-1] + ':' + code.co_qualname)
        return mon.DISABLE

      mon.register_callback(tool, mon.events.PY_START, on_start)
      mon.set_events(tool, mon.events.PY_START)
    except Exception:
      mon = None
  ok = True
  err = ''
  try:
    for args in [ob.smoke] + list(ob.extra_smokes):
      if args is None:
        continue
      r = ob.fn(**args)
      if r is not True:
        ok = False
        err = f'smoke run of {ob.name} returned {r!r} on {args!r}'
        if failed_args is not None:
          failed_args.append(args)
        break
  except Exception as e:  # pylint: disable=broad-except
    ok = False
    if failed_args is not None:
      failed_args.append(args)
    err = f'smoke run of {ob.name} raised {type(e).__name__}: {e}\n' + traceback.format_exc()[-1500:]
  finally:
    if mon is not None:
      try:
        mon.set_events(tool, 0)
        mon.register_callback(tool, mon.events.PY_START, None)
        mon.free_tool_id(tool)
      except Exception:
        pass
  encoded.update(seen)
  return ok, err


# ----------------------------------------------------------------------------- direct obligations

def run_direct(task):
  worker.fresh_stdio()
  t0 = time.time()
  try:
    mod = importlib.import_module(task['module'])
    obs = mod.obligations(task['tier'], task['seed'])
    ob = next(o for o in obs if o.name == task['name'])
    results = ob.run()
    return dict(name=task['name'], results=[r.__dict__ for r in results], wall_s=round(time.time() - t0, 2),
                error='')
  except BaseException as e:  # pylint: disable=broad-except
    return dict(name=task['name'], results=[], wall_s=round(time.time() - t0, 2),
                error=f'{type(e).__name__}: {e}\n' + traceback.format_exc()[-2000:])


# ----------------------------------------------------------------------------- main entry

def run_property(pid, tier, only=None, jobs=None, write_evidence=True, cube_filter=None):
  t_start = time.time()
  seed = int(os.environ.get('VERIF_SEED', '0') or 0)
  jobs = jobs or int(os.environ.get('VERIF_JOBS', '0') or 0) or os.cpu_count() or 4
  sys.path.insert(0, VERIF)
  try:
    hmod = importlib.import_module(f'harness.{pid.lower()}')
  except ModuleNotFoundError as e:
    log(f'no harness for {pid}: {e}')
    return 2
  worker.install_patches()
  obligations = list(hmod.obligations(tier, seed))
  if only:
    obligations = [o for o in obligations if only in o.name]
  if cube_filter:
    for o in obligations:
      o.cubes = [c for c in o.cubes if cube_filter in c.tag]
  known = load_known(pid)
  level = getattr(hmod, 'LEVEL', 'other')
  scratch = tempfile.mkdtemp(prefix=f'fv_{pid}_', dir=_scratch_root())
  harness_errors = []
  encoded = set()

  # 1. smoke runs (concrete, in this process) -------------------------------------------
  smoke_violations = []
  for ob in obligations:
    if ob.kind == 'crosshair' and ob.smoke is not None:
      failed = []
      ok, err = smoke_run(ob, encoded, failed)
      if not ok:
        log('SMOKE FAILED:', err)
        # A harness that fails on its concrete default arguments in a plain interpreter is a reproduced
        # counterexample like any other (e.g. allocator-dependent id reuse that CrossHair's tracing masks).
        reported = False
        if failed:
          path = write_replay(pid, ob.fn.__module__, ob.fn.__name__, failed[0], err)
          if replay_file(path) != 0:
            kf = match_known(known, ob.name, failed[0])
            if kf is None:
              smoke_violations.append((ob.name, path, err))
              print(f'VIOLATION property={pid} replay={path}', flush=True)
            else:
              # a smoke input inside a listed finding: reported as such, neither a violation nor a harness error
              print(f"KNOWN-FINDING: property={pid} {kf['what']} [id={kf['id']} example={failed[0]!r}]", flush=True)
              os.remove(path)
            reported = True
          else:
            os.remove(path)
        if not reported:
          harness_errors.append(err)
  smoke_failed = bool(harness_errors)

  # 2. schedule cubes -------------------------------------------------------------------
  ctx = multiprocessing.get_context('fork')
  pool = ctx.Pool(jobs, maxtasksperchild=1)

  def _on_term(signum, frame):
    # an external time limit ends the check: never leave workers behind
    for proc in list(getattr(pool, '_pool', []) or []):
      try:
        os.kill(proc.pid, 9)
      except Exception:  # pylint: disable=broad-except
        pass
    os._exit(143)  # pylint: disable=protected-access
  import signal as _signal
  _signal.signal(_signal.SIGTERM, _on_term)
  _signal.signal(_signal.SIGINT, _on_term)
  pending = []
  per_ob = {ob.name: dict(ob=ob, cubes=[], direct=None) for ob in obligations}

  def submit_cube(ob, cube, skip_twin=False, generation=0):
    task = dict(module=ob.fn.__module__, fn=ob.fn.__name__, tag=cube.tag, pre=list(cube.pre),
                timeout=ob.timeout, path_timeout=ob.path_timeout, twin_timeout=min(20, ob.timeout),
                scratch=scratch, skip_twin=skip_twin, fix=dict(cube.fix or {}), pid=pid)
    pending.append((ob, cube, generation, pool.apply_async(worker.run_cube, (task,))))

  # longest-first: cubes of obligations with the largest timeout go first
  for ob in obligations:
    if ob.kind != 'crosshair':
      task = dict(module=hmod.__name__, name=ob.name, tier=tier, seed=seed)
      pending.append((ob, None, 0, pool.apply_async(run_direct, (task,))))
  work = [(ob, cube) for ob in obligations if ob.kind == 'crosshair' for cube in ob.cubes]
  work.sort(key=lambda oc: -(oc[1].est or 0))   # biggest cubes first
  # Wall-clock budget (DESIGN 9.7): the thorough families are larger than one sitting; a run explores as many cubes
  # as fit into VERIF_BUDGET_S (default 2400 s for thorough, none for quick; 0 = no limit), in an order shuffled
  # by VERIF_SEED, and reports every cube it did not finish as inconclusive (never as success).
  budget = float(os.environ.get('VERIF_BUDGET_S', '') or (2400 if tier == 'thorough' else 0))
  deadline = t_start + budget if budget > 0 else None
  if tier == 'thorough':
    # A thorough run starts with the cubes of the quick tier (so that it never covers less than a quick run, whatever
    # the budget) and continues with the thorough family in an order shuffled by VERIF_SEED.
    import random as _random
    if deadline is not None:
      _random.Random(seed).shuffle(work)
    try:
      qmap = {o.name: o for o in hmod.obligations('quick', seed) if o.kind == 'crosshair'}
    except Exception:  # pylint: disable=broad-except
      qmap = {}
    first = []
    for ob in obligations:
      if ob.kind == 'crosshair' and ob.name in qmap and (not only or only in ob.name):
        have = {c.tag for c in ob.cubes}
        extra = [Cube('quick:' + c.tag, list(c.pre), dict(c.fix or {}), c.est) for c in qmap[ob.name].cubes
                 if not cube_filter or cube_filter in c.tag]
        ob.cubes = list(ob.cubes) + extra
        first += [(ob, c) for c in extra]
    first.sort(key=lambda oc: -(oc[1].est or 0))
    work = first + work
  for ob, cube in work:
    submit_cube(ob, cube)

  violations = list(smoke_violations)      # (harness, replay_path, message)
  known_seen = {}      # finding id -> what
  artefacts = []
  total = dict(obligations=0, discharged=0, inconclusive=0, paths=0, confirmed_paths=0,
               solver_queries=0, solver_s=0.0, states=0, transitions=0, traces=0)
  notes_all = set()
  samples = []
  cube_rows = []
  direct_rows = []
  done = 0
  n_expected = len(pending)
  last_progress = time.time()
  stalled = False
  stall_limit = max([o.timeout for o in obligations] + [60]) * 1.5 + 240

  while pending:
    progressed = False
    for item in list(pending):
      ob, cube, gen, ar = item
      if not ar.ready():
        continue
      pending.remove(item)
      progressed = True
      done += 1
      try:
        res = ar.get()
      except BaseException as e:  # worker crashed
        res = dict(tag=getattr(cube, 'tag', ob.name), status='error', message=f'worker died: {e!r}',
                   results=[], error=f'worker died: {e!r}', wall_s=0)
      if ob.kind == 'direct':
        _handle_direct(pid, ob, res, known, known_seen, violations, harness_errors, total, samples,
                       direct_rows)
        continue
      # ---- crosshair cube
      total['paths'] += res.get('paths', 0)
      total['confirmed_paths'] += res.get('confirmed_paths', 0)
      total['solver_queries'] += res.get('solver_queries', 0)
      total['solver_s'] += res.get('solver_s', 0.0)
      notes_all.update(res.get('notes', []))
      st = res['status']
      row = dict(harness=ob.name, cube=cube.tag, gen=gen, status=st, paths=res.get('paths', 0),
                 wall_s=res.get('wall_s', 0), twin=res.get('twin'))
      if st == 'refuted':
        cex = res.get('cex')
        if cex is None:
          artefacts.append(f'{ob.name}/{cube.tag}: counterexample arguments could not be parsed: '
                           + res.get('message', '')[:200])
          row['status'] = 'inconclusive(unparsed-cex)'
          total['obligations'] += 1
          total['inconclusive'] += 1
          cube_rows.append(row)
          continue
        if res.get('replay_path') and 'replay_rc' in res:
          path, rc = res['replay_path'], res['replay_rc']          # replayed by the worker (see worker.run_cube)
        else:
          path = write_replay(pid, ob.fn.__module__, ob.fn.__name__, cex, res.get('message', ''))
          rc = _replay_in_child(pool_ctx=ctx, path=path)
        if rc == 0:
          artefacts.append(f'{ob.name}/{cube.tag}: candidate {cex!r} does not reproduce without CrossHair')
          log(f'[{pid}] ARTEFACT {artefacts[-1]} :: {res.get("message", "")[:300]}')
          row['status'] = 'inconclusive(engine-artefact)'
          total['obligations'] += 1
          total['inconclusive'] += 1
          cube_rows.append(row)
          os.remove(path)
          continue
        kf = match_known(known, ob.name, cex)
        if kf is not None and gen < 12:
          if kf['id'] not in known_seen:
            known_seen[kf['id']] = kf['what']
            print(f"KNOWN-FINDING: property={pid} {kf['what']} [id={kf['id']} example={cex!r}]", flush=True)
          os.remove(path)
          ncube = Cube(cube.tag, list(cube.pre) + [f"not ({kf['matcher']})"], cube.fix, cube.est)
          row['status'] = 'known-finding->rerun'
          cube_rows.append(row)
          submit_cube(ob, ncube, skip_twin=True, generation=gen + 1)
          continue
        violations.append((ob.name, path, res.get('message', '')))
        samples.append(dict(harness=ob.name, cube=cube.tag, counterexample=_jsonable(cex)))
        print(f'VIOLATION property={pid} replay={path}', flush=True)
        log(f'  {ob.name}/{cube.tag}: {res.get("message", "")[:400]}')
        row['status'] = 'VIOLATION'
        total['obligations'] += 1
        cube_rows.append(row)
        continue
      total['obligations'] += 1
      if st == 'pre_unsat' and gen > 0:
        # re-run after excluding a known finding: nothing of the cube is left outside the finding
        row['status'] = 'covered-by-known-finding'
        total['known_cubes'] = total.get('known_cubes', 0) + 1
        cube_rows.append(row)
        continue
      if st == 'confirmed':
        total['discharged'] += 1
      elif st == 'inconclusive':
        total['inconclusive'] += 1
      else:
        harness_errors.append(f'{ob.name}/{cube.tag}: {st}: {res.get("message", "")[:600]}')
        total['inconclusive'] += 1
      tw = res.get('twin') or ''
      if gen == 0 and tw.startswith('unreachable'):
        harness_errors.append(f'{ob.name}/{cube.tag}: reachability twin {tw} (vacuous cube)')
      if res.get('witness') is not None and len(samples) < 12:
        samples.append(dict(harness=ob.name, cube=cube.tag, witness=_jsonable(res['witness'])))
      if res.get('note_samples') and len(samples) < 16:
        samples.append(dict(harness=ob.name, cube=cube.tag, structure=res['note_samples'][0][:300]))
      cube_rows.append(row)
      if done % 10 == 0 or st not in ('confirmed',):
        log(f'[{pid} {done}/{n_expected}+] {ob.name}/{cube.tag}: {st} paths={res.get("paths")} '
            f'{res.get("wall_s")}s twin={tw} {res.get("message", "")[:120]}')
    if deadline is not None and pending and time.time() > deadline:
      for ob, cube, gen, ar in pending:
        tag = getattr(cube, 'tag', ob.name)
        total['obligations'] += 1
        total['inconclusive'] += 1
        total['not_run'] = total.get('not_run', 0) + 1
        cube_rows.append(dict(harness=ob.name, cube=tag, gen=gen, status='inconclusive(not finished within the time budget)',
                              paths=0, wall_s=0))
      log(f'[{pid}] time budget of {int(budget)}s used up: {len(pending)} cubes not finished, reported inconclusive')
      pending = []
      stalled = True
      break
    if progressed:
      last_progress = time.time()
    else:
      time.sleep(0.2)
      if time.time() - last_progress > stall_limit:
        # no cube has finished for longer than any cube may take: a worker was lost (killed, or deadlocked right after
        # fork).  Never hang: the remaining cubes are reported inconclusive.
        for ob, cube, gen, ar in pending:
          tag = getattr(cube, 'tag', ob.name)
          log(f'[{pid}] STALLED: {ob.name}/{tag} - no result after {int(stall_limit)}s without progress; marked inconclusive')
          total['obligations'] += 1
          total['inconclusive'] += 1
          cube_rows.append(dict(harness=ob.name, cube=tag, gen=gen, status='inconclusive(worker lost)', paths=0, wall_s=0))
        pending = []
        stalled = True
  if stalled:
    pool.terminate()
  else:
    pool.close()
  pool.join()
  shutil.rmtree(scratch, ignore_errors=True)

  wall = round(time.time() - t_start, 2)
  exhaustive = (total['obligations'] > 0 and total['discharged'] == total['obligations']
                and not violations)
  # ------------------------------------------------------------------ evidence
  bounds = {}
  for ob in obligations:
    if ob.kind == 'crosshair':
      bounds[ob.name] = dict(pre=worker.harness_pre_lines(ob.fn), cubes=len(ob.cubes),
                             per_cube_timeout_s=ob.timeout, enumerated=ob.enumerated,
                             symbolic_leaves=not ob.enumerated, note=ob.bounds_note)
    else:
      bounds[ob.name] = dict(kind='direct SMT queries', note=ob.bounds_note)
  coverage = dict(
      explanation=getattr(hmod, 'EXPLANATION', '') or
      'bounded symbolic execution of the real code (CrossHair + z3)',
      obligations=total['obligations'],
      discharged=total['discharged'],
      inconclusive=total['inconclusive'],
      cubes_entirely_inside_known_findings=total.get('known_cubes', 0),
      cubes_not_finished_within_time_budget=total.get('not_run', 0),
      time_budget_s=budget,
      evaluations=max(total['paths'] + sum(r.get('queries', 0) for r in direct_rows), 0),
      distinct_nontrivial=len(notes_all) + sum(1 for r in direct_rows if r['verdict'] == 'holds'),
      rule=getattr(hmod, 'RULE', 'evaluations = CrossHair path iterations (each decided by z3) plus direct '
                   'SMT queries; distinct_nontrivial = distinct structural fingerprints (noted by the '
                   'harness after at least one Fiddle API call, just before its final assertion) plus '
                   'direct queries answered unsat'),
      samples=samples[:24] or [dict(note='no sample recorded')],
      confirmed_paths=total['confirmed_paths'],
      solver_queries=total['solver_queries'] + sum(r.get('queries', 0) for r in direct_rows),
      solver_seconds=round(total['solver_s'] + sum(r.get('seconds', 0) for r in direct_rows), 3),
      functions_encoded=sorted(encoded) + sorted(getattr(hmod, 'FUNCTIONS_ENCODED', [])),
      bounds=bounds,
      outside_bounds=getattr(hmod, 'OUT_OF_BOUNDS', []),
      engine_artefacts=artefacts,
      known_findings_seen=sorted(known_seen),
      harness_errors=harness_errors[:20],
      checker_cmd=f'./check {pid} --tier {tier}',
      trusted_base=['CrossHair 0.0.110 proxy semantics and path pruning', 'z3 5.1.0',
                    'CPython 3.12 builtins'] + list(getattr(hmod, 'TRUSTED', [])),
      exhaustive=bool(exhaustive),
      cubes=cube_rows if len(cube_rows) <= 400 else cube_rows[:400],
      direct=direct_rows,
      repo=repo_root(),
  )
  if level == 'model_checking':
    coverage['states'] = max(total['states'], 0)
    coverage['transitions'] = max(total['transitions'], 0)
    coverage['traces_validated_against_impl'] = total['traces']
  ev = dict(property_id=pid, tier=tier, seed=seed, level=level, coverage=coverage,
            assumptions=list(getattr(hmod, 'ASSUMPTIONS', [])), wall_s=wall,
            violations=len(violations))
  if write_evidence and not os.environ.get('FIDDLE_VERIF_REPO'):
    os.makedirs(os.path.join(VERIF, 'evidence'), exist_ok=True)
    with open(os.path.join(VERIF, 'evidence', f'{pid}.json'), 'w') as f:
      json.dump(ev, f, indent=1, default=str)
  print(f'{pid} {tier}: obligations={total["obligations"]} discharged={total["discharged"]} '
        f'inconclusive={total["inconclusive"]} paths={total["paths"]} distinct={coverage["distinct_nontrivial"]} '
        f'violations={len(violations)} known={len(known_seen)} artefacts={len(artefacts)} '
        f'harness_errors={len(harness_errors)} wall={wall}s', flush=True)
  if violations:
    return 1
  if harness_errors:
    for e in harness_errors[:10]:
      log('HARNESS ERROR:', e)
    return 2
  return 0


def _handle_direct(pid, ob, res, known, known_seen, violations, harness_errors, total, samples, rows):
  if res.get('error'):
    harness_errors.append(f'{ob.name}: {res["error"][:800]}')
    return
  for r in res['results']:
    total['obligations'] += 1
    total['states'] += r.get('states', 0)
    total['transitions'] += r.get('transitions', 0)
    row = dict(harness=ob.name, query=r['name'], verdict=r['verdict'], seconds=r['seconds'],
               queries=r.get('queries', 1), detail=r.get('detail', '')[:300])
    if r.get('sample') is not None and len(samples) < 24:
      samples.append(dict(harness=ob.name, query=r['name'], sample=_jsonable(r['sample'])))
    if r['verdict'] == 'holds':
      total['discharged'] += 1
      if r.get('reproduced'):
        total['traces'] += 1
    elif r['verdict'] == 'violated':
      if r.get('reproduced') is False:
        total['inconclusive'] += 1
        row['verdict'] = 'inconclusive(model does not replay)'
      else:
        kf = match_known_direct(known, ob.name, r.get('finding_key') or r['name'])
        if kf is not None:
          if kf['id'] not in known_seen:
            known_seen[kf['id']] = kf['what']
            print(f"KNOWN-FINDING: property={pid} {kf['what']} [id={kf['id']} example={r.get('model')!r}]",
                  flush=True)
          row['verdict'] = 'known-finding'
        else:
          path = write_replay(pid, ob.run.__module__ if ob.run else 'harness', r['name'],
                              dict(model=_jsonable(r.get('model'))), r.get('detail', ''), kind='direct')
          violations.append((ob.name, path, r.get('detail', '')))
          print(f'VIOLATION property={pid} replay={path}', flush=True)
          log(f'  {ob.name}/{r["name"]}: {r.get("detail", "")[:400]} model={r.get("model")!r}')
    else:
      total['inconclusive'] += 1
    rows.append(row)
  log(f'[{pid}] direct {ob.name}: ' + ', '.join(f"{r['name']}={r['verdict']}" for r in res['results'])[:600])


def _jsonable(x):
  try:
    json.dumps(x)
    return x
  except Exception:
    if isinstance(x, dict):
      return {str(k): _jsonable(v) for k, v in x.items()}
    if isinstance(x, (list, tuple)):
      return [_jsonable(v) for v in x]
    return repr(x)


def _scratch_root():
  d = os.path.join(VERIF, '.scratch')
  os.makedirs(d, exist_ok=True)
  return d
