"""./check <ID> --tier quick|thorough [--replay FILE]"""
from __future__ import annotations

import argparse
import sys

from fvrun import driver


def main():
  ap = argparse.ArgumentParser()
  ap.add_argument('property')
  ap.add_argument('--tier', default=None, choices=['quick', 'thorough'])
  ap.add_argument('--replay', default=None)
  ap.add_argument('--only', default=None, help='only obligations whose name contains this')
  ap.add_argument('--jobs', type=int, default=None)
  ap.add_argument('--cubes', default=None, help='only cubes whose tag contains this (debugging)')
  ap.add_argument('--no-evidence', action='store_true')
  args = ap.parse_args()
  if args.replay:
    sys.exit(driver.replay_file(args.replay, verbose=True))
  import os
  tier = args.tier or os.environ.get('VERIF_TIER') or 'quick'
  sys.exit(driver.run_property(args.property.upper(), tier, only=args.only, jobs=args.jobs,
                               write_evidence=not args.no_evidence and not args.cubes and not args.only,
                               cube_filter=args.cubes))


if __name__ == '__main__':
  main()
