"""Runs one cube (reachability twin + main analysis) under CrossHair in a forked child."""
from __future__ import annotations

import ast
import collections
import hashlib
import importlib
import importlib.util
import inspect
import os
import signal
import sys
import time
import traceback

_PATCHED = False
STATS = collections.Counter()


def install_patches():
  """Engine adjustments (DESIGN 1.1): no optional short-circuits; count paths / solver work."""
  global _PATCHED
  if _PATCHED:
    return
  _PATCHED = True
  import crosshair.core as core
  import z3

  orig_sc = core.consider_shortcircuit

  def no_optional_shortcircuit(fn, sig, bound, subconditions, allow_interpretation):
    if allow_interpretation:
      return None
    return orig_sc(fn, sig, bound, subconditions, allow_interpretation)

  core.consider_shortcircuit = no_optional_shortcircuit

  # No contract enforcement on callees: the only contract of interest is the generated wrapper's.
  # Enforcement would (a) treat a nested failing harness as "internal failed post condition" and
  # silently ignore the path, (b) copy.copy() every argument of CrossHair's own contract-bearing
  # builtins (e.g. repr(cfg) -> Buildable.__copy__ executed untraced -> CrossHairInternal),
  # (c) replace every class construction by a manual constructor.  Measured: all three.
  import contextlib
  import crosshair.enforce as enforce

  @contextlib.contextmanager
  def no_enforcement(self):
    yield None

  enforce.EnforcedConditions.enabled_enforcement = no_enforcement

  orig_ct = core.analyze_calltree

  def counting_calltree(options, conditions):
    if options.stats is None:
      options.stats = collections.Counter()
    before = options.stats.get('num_paths', 0)
    res = orig_ct(options, conditions)
    STATS['paths'] += options.stats.get('num_paths', 0) - before
    STATS['confirmed_paths'] += res.num_confirmed_paths
    return res

  core.analyze_calltree = counting_calltree

  # CrossHair's replacements for getattr/setattr/hasattr run the *whole* attribute protocol with
  # tracing off, i.e. Fiddle's __getattr__/__setattr__ would execute un-traced on proxy values
  # (measured: "Numeric operation on symbolic while not tracing").  Fiddle uses these builtins
  # in ~50 places.  Replace them by versions that only realise a symbolic *name* untraced and
  # then perform the real call with tracing on.
  import crosshair.core_and_libs  # noqa: F401  (registers the default patches first)
  from crosshair import NoTracing, realize
  from crosshair.libimpl.builtinslib import AnySymbolicStr, SymbolicValue

  _missing = object()

  def traced_getattr(obj, name, default=_missing):
    with NoTracing():
      if isinstance(name, AnySymbolicStr):
        name = realize(name)
    if default is _missing:
      return getattr(obj, name)
    return getattr(obj, name, default)

  def traced_hasattr(obj, name):
    with NoTracing():
      if isinstance(name, AnySymbolicStr):
        name = realize(name)
    return hasattr(obj, name)

  def traced_setattr(obj, name, value):
    with NoTracing():
      if isinstance(obj, SymbolicValue):
        obj = realize(obj)
      if isinstance(name, AnySymbolicStr):
        name = realize(name)
    return setattr(obj, name, value)

  core._PATCH_REGISTRATIONS[getattr] = traced_getattr
  core._PATCH_REGISTRATIONS[hasattr] = traced_hasattr
  core._PATCH_REGISTRATIONS[setattr] = traced_setattr

  orig_check = z3.Solver.check

  def counting_check(self, *a):
    t0 = time.perf_counter()
    try:
      return orig_check(self, *a)
    finally:
      STATS['solver_queries'] += 1
      STATS['solver_us'] += int((time.perf_counter() - t0) * 1e6)

  z3.Solver.check = counting_check


def harness_signature_source(fn):
  """Returns (params_source, names) of `fn`, read from its module's source text."""
  src = inspect.getsource(sys.modules[fn.__module__])
  tree = ast.parse(src)
  for node in ast.walk(tree):
    if isinstance(node, ast.FunctionDef) and node.name == fn.__name__:
      names = [a.arg for a in node.args.args]
      return ast.unparse(node.args), names
  raise LookupError(fn.__name__)


def harness_pre_lines(fn):
  """Bounds of a harness, written as `require:` lines in its docstring.

  They are deliberately *not* PEP-316 `pre:` lines: CrossHair must see a contract only on the
  generated wrapper, never on the harness it calls."""
  return ['pre: ' + l.strip()[len('require:'):].strip() for l in (fn.__doc__ or '').split('\n')
          if l.strip().startswith('require:')]


class _Subst(ast.NodeTransformer):
  def __init__(self, fix):
    self.fix = fix

  def visit_Name(self, node):
    if node.id in self.fix:
      return ast.copy_location(ast.Constant(self.fix[node.id]), node)
    return node


def _subst_pre(line, fix):
  """'pre: expr' with fixed parameters replaced by their constants."""
  expr = line.split('pre:', 1)[1].strip()
  if not fix:
    return 'pre: ' + expr
  tree = ast.parse(expr, mode='eval')
  tree = _Subst(fix).visit(tree)
  return 'pre: ' + ast.unparse(tree)


def make_wrapper_source(fn, extra_pre, tag, twin, fix=None):
  """Source of a wrapper whose parameters are the harness parameters not bound by `fix`."""
  fix = fix or {}
  src = inspect.getsource(sys.modules[fn.__module__])
  fndef = next(n for n in ast.walk(ast.parse(src)) if isinstance(n, ast.FunctionDef) and n.name == fn.__name__)
  free = [a for a in fndef.args.args if a.arg not in fix]
  params = ', '.join(f'{a.arg}: {ast.unparse(a.annotation)}' for a in free)
  pres = [_subst_pre(l, fix) for l in harness_pre_lines(fn)] + [_subst_pre('pre: ' + e, fix) for e in extra_pre]
  pres = [p for p in pres if p.strip() != 'pre: True']
  doc = '\n  '.join(pres + ['post: _'])
  call_args = ', '.join(f'{a.arg}={fix[a.arg]!r}' if a.arg in fix else f'{a.arg}={a.arg}' for a in fndef.args.args)
  call = f"_m.{fn.__name__}({call_args})"
  body = f"  {call}\n  return False\n" if twin else f"  return {call}\n"
  wname = f"{fn.__name__}__{tag}{'__twin' if twin else ''}"
  wname = ''.join(c if c.isalnum() or c == '_' else '_' for c in wname)
  out = (
      "from typing import *\n"
      f"import {fn.__module__} as _m\n\n"
      f"def {wname}({params}) -> bool:\n"
      f'  """\n  {doc}\n  """\n{body}'
  )
  return wname, out


def load_wrapper(scratch, fn, extra_pre, tag, twin, fix=None):
  wname, src = make_wrapper_source(fn, extra_pre, tag, twin, fix)
  modname = '_fvw_' + hashlib.md5((wname + repr(extra_pre) + repr(fix)).encode()).hexdigest()[:16]
  path = os.path.join(scratch, modname + '.py')
  with open(path, 'w') as f:
    f.write(src)
  spec = importlib.util.spec_from_file_location(modname, path)
  mod = importlib.util.module_from_spec(spec)
  sys.modules[modname] = mod
  spec.loader.exec_module(mod)
  return getattr(mod, wname), path


def parse_call(msg, fn, fix=None):
  """'... when calling name(args)' -> dict of harness arguments (or None)."""
  key = 'when calling '
  if key not in msg:
    return None
  expr = msg[msg.index(key) + len(key):]
  depth = 0
  in_str = None
  i = 0
  end = None
  while i < len(expr):
    ch = expr[i]
    if in_str:
      if ch == '\\':
        i += 2
        continue
      if ch == in_str:
        in_str = None
    elif ch in ('"', "'"):
      in_str = ch
    elif ch in '([{':
      depth += 1
    elif ch in ')]}':
      depth -= 1
      if depth == 0:
        end = i + 1
        break
    i += 1
  if end is None:
    return None
  try:
    call = ast.parse(expr[:end], mode='eval').body
    args = [ast.literal_eval(a) for a in call.args]
    kwargs = {k.arg: ast.literal_eval(k.value) for k in call.keywords}
    fix = fix or {}
    free = [n for n in inspect.signature(fn).parameters if n not in fix]
    out = dict(fix)
    out.update(dict(zip(free, args)))
    out.update(kwargs)
    return {n: out[n] for n in inspect.signature(fn).parameters}
  except Exception:
    return None


def _analyze(fn, timeout, path_timeout):
  from crosshair.core_and_libs import analyze_function, run_checkables
  from crosshair.options import AnalysisOptionSet
  opts = AnalysisOptionSet(
      per_condition_timeout=timeout, per_path_timeout=path_timeout, report_all=True,
      max_uninteresting_iterations=sys.maxsize)
  checkables = analyze_function(fn, opts)
  msgs = run_checkables(checkables)
  return [(m.state.name, m.message) for m in msgs]


class _HardTimeout(BaseException):
  pass


def fresh_stdio():
  """Workers are forked from a pool-maintenance *thread* of the parent (maxtasksperchild=1); if the main thread holds
  the lock of a stdio buffer at that instant the child inherits it locked and blocks forever on its first write
  (observed as a hung run with idle workers).  Fresh stream objects have fresh locks."""
  import io
  try:
    sys.stdout = io.TextIOWrapper(io.FileIO(1, 'w', closefd=False), line_buffering=True, errors='replace')
    sys.stderr = io.TextIOWrapper(io.FileIO(2, 'w', closefd=False), line_buffering=True, errors='replace')
  except Exception:  # pylint: disable=broad-except
    pass


def run_cube(task):
  """task: dict(module, fn, tag, pre, timeout, path_timeout, twin_timeout, scratch, skip_twin)."""
  fresh_stdio()
  if os.environ.get('VERIF_DEBUG_HANG'):
    import faulthandler
    faulthandler.dump_traceback_later(int(os.environ['VERIF_DEBUG_HANG']), exit=True)
  install_patches()
  t0 = time.time()
  out = dict(tag=task['tag'], pre=list(task['pre']), status='error', message='', cex=None,
             witness=None, paths=0, confirmed_paths=0, solver_queries=0, solver_s=0.0,
             notes=[], note_samples=[], twin='skipped')
  hard = int(task['timeout'] * 1.5 + task.get('twin_timeout', 15) + 60)

  def on_alarm(signum, frame):
    raise _HardTimeout()

  signal.signal(signal.SIGALRM, on_alarm)
  signal.alarm(hard)
  try:
    mod = importlib.import_module(task['module'])
    fn = getattr(mod, task['fn'])
    import fvlib.notes as notes
    if not task.get('skip_twin'):
      twin_fn, _ = load_wrapper(task['scratch'], fn, task['pre'], task['tag'], True, task.get('fix'))
      res = _analyze(twin_fn, task.get('twin_timeout', 15), task['path_timeout'])
      states = [s for s, _ in res]
      if 'POST_FAIL' in states:
        out['twin'] = 'reached'
        out['witness'] = parse_call(res[states.index('POST_FAIL')][1], fn, task.get('fix'))
      elif 'EXEC_ERR' in states or 'POST_ERR' in states:
        # The harness raised before returning: a candidate for the main run to report.
        out['twin'] = 'raised'
      elif 'CANNOT_CONFIRM' in states:
        out['twin'] = 'timeout'
      else:
        out['twin'] = 'unreachable:' + ','.join(states)
    STATS.clear()
    notes.reset()
    main_fn, _ = load_wrapper(task['scratch'], fn, task['pre'], task['tag'], False, task.get('fix'))
    res = _analyze(main_fn, task['timeout'], task['path_timeout'])
    states = [s for s, _ in res]
    out['raw'] = [(s, m[:300]) for s, m in res]
    if not res:
      out['status'] = 'error'
      out['message'] = 'no conditions found'
    elif any(s in ('POST_FAIL', 'EXEC_ERR', 'POST_ERR') for s in states):
      i = next(i for i, s in enumerate(states) if s in ('POST_FAIL', 'EXEC_ERR', 'POST_ERR'))
      out['status'] = 'refuted'
      out['message'] = res[i][1][:1000]
      out['cex'] = parse_call(res[i][1], fn, task.get('fix'))
    elif 'PRE_UNSAT' in states:
      out['status'] = 'pre_unsat'
      out['message'] = res[states.index('PRE_UNSAT')][1][:300]
    elif all(s == 'CONFIRMED' for s in states):
      out['status'] = 'confirmed'
    elif 'CANNOT_CONFIRM' in states:
      out['status'] = 'inconclusive'
      out['message'] = res[states.index('CANNOT_CONFIRM')][1][:300]
    else:
      out['status'] = 'error'
      out['message'] = repr(res)[:500]
    out['paths'] = STATS['paths']
    out['confirmed_paths'] = STATS['confirmed_paths']
    out['solver_queries'] = STATS['solver_queries']
    out['solver_s'] = STATS['solver_us'] / 1e6
    all_notes = notes.snapshot()
    out['notes'] = [hashlib.md5(n.encode()).hexdigest()[:12] for n in all_notes]
    out['note_samples'] = sorted(all_notes)[:2]
  except _HardTimeout:
    out['status'] = 'inconclusive'
    out['message'] = f'hard timeout after {hard}s'
  except BaseException as e:  # pylint: disable=broad-except
    out['status'] = 'error'
    out['message'] = ''.join(traceback.format_exception_only(type(e), e))[:500] + traceback.format_exc()[-1500:]
  finally:
    signal.alarm(0)
  if out['status'] == 'refuted' and out['cex'] is not None and task.get('pid'):
    # Replay here, in the worker: the driver process must not spawn subprocesses while its pool thread forks workers
    # (a worker forked between Popen's pipe() and the child's exec inherits the pipe's write end, and the driver then
    # blocks on that pipe for as long as the - idle - worker lives: the hang described in DESIGN 9.2).
    try:
      from fvrun import driver
      out['replay_path'] = driver.write_replay(task['pid'], task['module'], task['fn'], out['cex'], out['message'])
      out['replay_rc'] = driver.replay_file(out['replay_path'])
    except BaseException as e:  # pylint: disable=broad-except
      out['replay_error'] = repr(e)[:300]
  out['wall_s'] = round(time.time() - t0, 2)
  return out
